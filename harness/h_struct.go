//go:build verif || verifnative

package jmespath

// C18: documents made of Go structs, pointers and typed slices.

type verifT struct {
	A string
	N float64
	P *verifT
	S []verifT
	Q []*verifT
	L []string
	F []float64
}

func verifUses(use string, c byte) bool {
	for i := 0; i < len(use); i++ {
		if use[i] == c {
			return true
		}
	}
	return false
}

func verifLeafT() verifT {
	c := verifNondetByte()
	verifAssume(c < 0x80)
	return verifT{A: string([]byte{c}), N: verifNondetFloat64(), S: []verifT{}, Q: []*verifT{}, L: []string{}, F: []float64{}}
}

// verifMakeT builds a struct document; only the fields named in use vary.
func verifMakeT(use string) verifT {
	t := verifT{S: []verifT{}, Q: []*verifT{}, L: []string{}, F: []float64{}}
	kmax := 3 // slice lengths 0..kmax-1
	if verifHasParam("K") {
		kmax = verifParam("K")
	}
	if verifUses(use, 'a') {
		t.A = verifNondetString(1)
	}
	if verifUses(use, 'n') {
		t.N = verifNondetFloat64()
	}
	if verifUses(use, 'p') && verifNondetBool() {
		p := verifLeafT()
		t.P = &p
	}
	if verifUses(use, 's') {
		k := verifChoose(kmax)
		for i := 0; i < k; i++ {
			t.S = append(t.S, verifLeafT())
		}
	}
	if verifUses(use, 'q') {
		k := verifChoose(kmax)
		for i := 0; i < k; i++ {
			if verifNondetBool() {
				t.Q = append(t.Q, nil)
			} else {
				e := verifLeafT()
				t.Q = append(t.Q, &e)
			}
		}
	}
	if verifUses(use, 'l') {
		k := verifChoose(kmax)
		for i := 0; i < k; i++ {
			c := verifNondetByte()
			verifAssume(c < 0x80)
			t.L = append(t.L, string([]byte{c}))
		}
	}
	if verifUses(use, 'f') {
		k := verifChoose(kmax)
		for i := 0; i < k; i++ {
			t.F = append(t.F, verifNondetFloat64())
		}
	}
	return t
}

// verifImage: the equivalent generic JSON document (nil pointer = null).
func verifImage(t verifT) interface{} {
	m := map[string]interface{}{"a": t.A, "n": t.N}
	if t.P == nil {
		m["p"] = nil
	} else {
		m["p"] = verifImage(*t.P)
	}
	s := []interface{}{}
	for i := range t.S {
		s = append(s, verifImage(t.S[i]))
	}
	m["s"] = s
	q := []interface{}{}
	for i := range t.Q {
		if t.Q[i] == nil {
			q = append(q, nil)
		} else {
			q = append(q, verifImage(*t.Q[i]))
		}
	}
	m["q"] = q
	l := []interface{}{}
	for i := range t.L {
		l = append(l, t.L[i])
	}
	m["l"] = l
	f := []interface{}{}
	for i := range t.F {
		f = append(f, t.F[i])
	}
	m["f"] = f
	return m
}

// verifNormalize: a result over Go values brought to its generic JSON form.
func verifNormalize(v interface{}) interface{} {
	switch x := v.(type) {
	case verifT:
		return verifImage(x)
	case *verifT:
		if x == nil {
			return nil
		}
		return verifImage(*x)
	case []verifT:
		out := []interface{}{}
		for i := range x {
			out = append(out, verifImage(x[i]))
		}
		return out
	case []*verifT:
		out := []interface{}{}
		for i := range x {
			out = append(out, verifNormalize(x[i]))
		}
		return out
	case []string:
		out := []interface{}{}
		for i := range x {
			out = append(out, x[i])
		}
		return out
	case []float64:
		out := []interface{}{}
		for i := range x {
			out = append(out, x[i])
		}
		return out
	case []interface{}:
		out := []interface{}{}
		for i := range x {
			out = append(out, verifNormalize(x[i]))
		}
		return out
	case map[string]interface{}:
		out := map[string]interface{}{}
		for _, k := range specSortedKeys(x) {
			out[k] = verifNormalize(x[k])
		}
		return out
	}
	return v
}

func VerifStruct() {
	expr := verifParamStr("expr")
	use := verifParamStr("use")
	byPtr := verifParam("ptr") == 1
	cmp := verifParam("cmp") == 1
	t := verifMakeT(use)
	var doc interface{} = t
	if byPtr {
		doc = &t
	}
	nints := verifParam("ints")
	ints := make([]int, nints)
	for i := range ints {
		ints[i] = verifNondetInt()
	}
	var r1 interface{}
	var e1 error
	if nints == 0 {
		r1, e1 = Search(expr, doc)
	} else {
		r1, e1 = verifSearchPatched(expr, doc, ints)
	}
	verifNote("err", e1 != nil)
	if !cmp {
		return // functions on typed slices: only "no panic" is claimed
	}
	var r2 interface{}
	var e2 error
	if nints == 0 {
		r2, e2 = Search(expr, verifImage(t))
	} else {
		r2, e2 = verifSearchPatched(expr, verifImage(t), ints)
	}
	verifAssert((e1 != nil) == (e2 != nil), "C18:error-ness-differs-from-generic-document")
	if e1 != nil || e2 != nil {
		return
	}
	verifAssert(specMatch(verifNormalize(r1), r2), "C18:result-differs-from-generic-document")
}

// VerifStructAnon: two different anonymous struct types with a field of the
// same name at different positions (type-name keyed caches confuse them).
func VerifStructAnon() {
	expr := verifParamStr("expr")
	type inner = struct {
		Age  float64
		Name string
	}
	doc := struct {
		Name  string
		Owner inner
		Kids  []struct {
			X    float64
			Y    float64
			Name string
		}
	}{Name: verifNondetString(1), Owner: inner{Age: verifNondetFloat64(), Name: verifNondetString(1)}}
	doc.Kids = append(doc.Kids, struct {
		X    float64
		Y    float64
		Name string
	}{X: 1, Y: 2, Name: verifNondetString(1)})
	image := map[string]interface{}{"name": doc.Name, "owner": map[string]interface{}{"age": doc.Owner.Age, "name": doc.Owner.Name},
		"kids": []interface{}{map[string]interface{}{"x": 1.0, "y": 2.0, "name": doc.Kids[0].Name}}}
	r1, e1 := Search(expr, doc)
	r2, e2 := Search(expr, image)
	verifNote("err", e1 != nil)
	verifAssert((e1 != nil) == (e2 != nil), "C18:error-ness-differs-from-generic-document")
	if e1 != nil || e2 != nil {
		return
	}
	verifAssert(specMatch(r1, r2), "C18:result-differs-from-generic-document")
}

// VerifStructCompiled (C12): a compiled expression searched over a struct
// document must not write to anything that existed before the call.
func VerifStructCompiled() {
	expr := verifParamStr("expr")
	use := verifParamStr("use")
	jp, cerr := Compile(expr)
	if cerr != nil {
		verifUnreachable("C12:template-does-not-compile")
		return
	}
	t := verifMakeT(use)
	var doc interface{} = t
	if verifParam("ptr") == 1 {
		doc = &t
	}
	before := ""
	if verifNative() {
		before = verifFingerprint(jp)
	}
	verifFreeze()
	_, err := jp.Search(doc)
	verifThaw()
	verifNote("err", err != nil)
	if verifNative() {
		verifAssert(verifFingerprint(jp) == before, "frame-write")
	}
}
