//go:build verif || verifnative

package jmespath

// H-LEX(N): the real tokenize on N arbitrary bytes (including invalid UTF-8).
func VerifLex() {
	n := verifParam("N")
	src := verifNondetBytes(n)
	lexer := NewLexer()
	toks, err := lexer.tokenize(src)
	verifNote("err", err != nil)
	if err != nil {
		if se, ok := err.(SyntaxError); ok {
			verifAssert(verifAnd(se.Offset >= 0, se.Offset <= n), "C17:lexer-offset-in-range")
			verifAssert(se.Expression == src, "C17:lexer-error-carries-expression")
			verifNote("offset", se.Offset)
		}
		return
	}
	verifNote("ntok", len(toks))
	verifAssert(len(toks) >= 1, "C05:tokinv-nonempty")
	last := toks[len(toks)-1]
	verifAssert(last.tokenType == tEOF && last.position == n, "C05:tokinv-eof-last")
	prev := 0
	for i := 0; i < len(toks); i++ {
		t := toks[i]
		verifAssert(t.tokenType >= tUnknown && t.tokenType <= tEOF, "C05:tokinv-type-range")
		verifAssert(i == len(toks)-1 || t.tokenType != tEOF, "C05:tokinv-single-eof")
		verifAssert(t.position >= prev && t.position <= n, "C05:tokinv-position-monotone")
		prev = t.position
		verifNote("tok", int(t.tokenType))
	}
}
