//go:build verifnative

package jmespath

import (
	"encoding/json"
	"math"
	"reflect"
	"strconv"
	"strings"
	"testing"
)

// verifTryJSONValue: the model refuses inputs outside its stated bounds by a
// MODEL: assertion; those are skipped here (and are inconclusive in a check).
func verifTryJSONValue(s string) (v interface{}, ok bool, outside bool) {
	defer func() {
		if r := recover(); r != nil {
			if _, isA := r.(verifAssertFail); isA {
				outside = true
				return
			}
			panic(r)
		}
	}()
	v, ok = verifModelJSONValue(s)
	return
}

func verifWords(alpha []string, maxLen int, f func(string)) {
	var rec func(cur string, n int)
	rec = func(cur string, n int) {
		f(cur)
		if n == maxLen {
			return
		}
		for _, a := range alpha {
			rec(cur+a, n+1)
		}
	}
	rec("", 0)
}

// TestVerifModels validates the Go models of standard-library functions used
// by the symbolic executor against the real functions, exhaustively over
// small alphabets chosen to hit every branch of the models.
func TestVerifModels(t *testing.T) {
	verifParams = map[string]string{}
	n := 0
	// strings.Replace(s, "\\`", "`", -1) and similar
	verifWords([]string{"\\", "`", "a", "'"}, 6, func(s string) {
		n++
		for _, p := range [][2]string{{"\\`", "`"}, {"\\'", "'"}, {"a", "bb"}, {"``", ""}} {
			if got, want := verifModelReplace(s, p[0], p[1], -1), strings.Replace(s, p[0], p[1], -1); got != want {
				t.Fatalf("Replace(%q,%q,%q): model %q real %q", s, p[0], p[1], got, want)
			}
		}
	})
	// strconv.Atoi
	verifWords([]string{"-", "+", "0", "1", "9", "a", " ", "_"}, 4, func(s string) {
		n++
		got, gerr := verifModelAtoi(s)
		want, werr := strconv.Atoi(s)
		if (gerr != nil) != (werr != nil) || (werr == nil && got != want) {
			t.Fatalf("Atoi(%q): model %d,%v real %d,%v", s, got, gerr, want, werr)
		}
	})
	// json.Unmarshal into a string
	verifWords([]string{"a", "\\", "\"", "u", "0", "d", "8", "c", "D", "\x01", "\x7f", "\xc3", "\xa9", "\xff", " ", "n", "/", "\xed", "\xa0", "\x80"}, 4, func(s string) {
		n++
		in := "\"" + s + "\""
		var want string
		werr := json.Unmarshal([]byte(in), &want)
		got, ok := verifModelJSONString(in)
		if ok != (werr == nil) || (ok && got != want) {
			t.Fatalf("JSONString(%q): model %q,%v real %q,%v", in, got, ok, want, werr)
		}
	})
	for _, in := range []string{`"\ud83d\ude00"`, `"\ud83dx"`, `"\ud83d\u0041"`, `"\udc00"`, `"\u00e9\u0000"`, ` "a" `, `"a"x`, `"\u12"`, `"\uD834\uDD1E"`, `"\ud800\ud800"`, "\t\"\\n\"\n"} {
		var want string
		werr := json.Unmarshal([]byte(in), &want)
		got, ok := verifModelJSONString(in)
		if ok != (werr == nil) || (ok && got != want) {
			t.Fatalf("JSONString(%q): model %q,%v real %q,%v", in, got, ok, want, werr)
		}
	}
	// json.Unmarshal into interface{}
	verifWords([]string{"[", "]", "{", "}", "\"", ":", ",", "1", "-", "0", "e", ".", "t", "n", " ", "a", "9", "E", "+"}, 5, func(s string) {
		n++
		var want interface{}
		werr := json.Unmarshal([]byte(s), &want)
		verifAbstractUsed = false
		got, ok, outside := verifTryJSONValue(s)
		if outside {
			return
		}
		if ok != (werr == nil) {
			t.Fatalf("JSONValue(%q): model ok=%v real err=%v", s, ok, werr)
		}
		if ok && !verifAbstractUsed && !reflect.DeepEqual(got, want) {
			if f, isF := want.(float64); !(isF && f == 0 && math.Signbit(f) && got == float64(0)) || true {
				t.Fatalf("JSONValue(%q): model %#v real %#v", s, got, want)
			}
		}
	})
	for _, in := range []string{"true", "false", "null", " null ", "nul", "[true,false,null]", `{"a":[1,{"b":"x"}],"a":2}`, "-0", "1.5", "1e2", "01", "1.", ".1", "-", "[1,]", `{"a"}`, `{"a":1,}`, "123", "1234", `["\u00e9"]`, "[[[[1]]]]"} {
		var want interface{}
		werr := json.Unmarshal([]byte(in), &want)
		verifAbstractUsed = false
		got, ok := verifModelJSONValue(in)
		if ok != (werr == nil) || (ok && !verifAbstractUsed && !reflect.DeepEqual(got, want)) {
			t.Fatalf("JSONValue(%q): model %#v,%v real %#v,%v", in, got, ok, want, werr)
		}
	}
	t.Logf("models validated on %d inputs", n)
}
