//go:build verif || verifnative

package jmespath

import (
	"encoding/json"
	"math"
	"strconv"
	"strings"
	"unicode/utf8"
)

// ---------------------------------------------------------------------
// specEval: the evaluation oracle, written clause by clause from the JMESPath
// specification (DESIGN.md Appendix B and C). It evaluates the *generator's*
// syntax tree (an s-expression handed over as a job parameter), never the
// real parser's output.
// ---------------------------------------------------------------------

type specNode struct {
	op   string
	s    string
	kids []*specNode
	lit  interface{}
	ival [3]int  // concrete ints (index; slice start/stop/step)
	has  [3]bool // slice part present
	sym  [3]int  // >0: number of the symbolic int to use instead of ival
}

type specRef struct{ n *specNode }     // expression reference
type specJSONTextOf struct{ v interface{} } // to_string of a non-string
type specToNumber struct{ s string }   // to_number of a string: finite number or null

type specEnv struct{ ints []int }

func specTokens(s string) []string {
	var out []string
	cur := ""
	for i := 0; i < len(s); i++ {
		c := s[i]
		if c == '(' || c == ')' || c == ' ' {
			if cur != "" {
				out = append(out, cur)
				cur = ""
			}
			if c != ' ' {
				out = append(out, s[i:i+1])
			}
		} else {
			cur += s[i : i+1]
		}
	}
	if cur != "" {
		out = append(out, cur)
	}
	return out
}

func specIntAtom(a string, n *specNode, k int) {
	if a == "_" {
		return
	}
	n.has[k] = true
	if a[0] == '?' {
		v, _ := strconv.Atoi(a[1:])
		n.sym[k] = v
		return
	}
	v, _ := strconv.Atoi(a)
	n.ival[k] = v
}

func specUnescape(a string) string {
	if a == `""` {
		return ""
	}
	return a
}

func specParseAt(t []string, i int) (*specNode, int) {
	if t[i] != "(" {
		panic("spec: expected (")
	}
	n := &specNode{op: t[i+1]}
	i += 2
	switch n.op {
	case "field", "raw":
		n.s = specUnescape(t[i])
		return n, i + 2
	case "lit":
		if err := json.Unmarshal([]byte(t[i]), &n.lit); err != nil {
			panic("spec: bad literal " + t[i])
		}
		return n, i + 2
	case "index":
		specIntAtom(t[i], n, 0)
		return n, i + 2
	case "cur", "id":
		return n, i + 1
	case "cmp", "call":
		n.s = t[i]
		i++
	case "slice":
		// (slice L s e st R)
		l, j := specParseAt(t, i)
		specIntAtom(t[j], n, 0)
		specIntAtom(t[j+1], n, 1)
		specIntAtom(t[j+2], n, 2)
		r, k := specParseAt(t, j+3)
		n.kids = []*specNode{l, r}
		return n, k + 1
	case "hash":
		for t[i] != ")" {
			key := specUnescape(t[i])
			v, j := specParseAt(t, i+1)
			v2 := &specNode{op: "kv", s: key, kids: []*specNode{v}}
			n.kids = append(n.kids, v2)
			i = j
		}
		return n, i + 1
	}
	for t[i] != ")" {
		k, j := specParseAt(t, i)
		n.kids = append(n.kids, k)
		i = j
	}
	return n, i + 1
}

func specParse(s string) *specNode {
	n, _ := specParseAt(specTokens(s), 0)
	return n
}

func (n *specNode) intAt(k int, env *specEnv) int {
	if n.sym[k] > 0 {
		return env.ints[n.sym[k]-1]
	}
	return n.ival[k]
}

func specTruthy(v interface{}) bool {
	switch x := v.(type) {
	case nil:
		return false
	case bool:
		return x
	case string:
		return len(x) > 0
	case []interface{}:
		return len(x) > 0
	case map[string]interface{}:
		return len(x) > 0
	}
	return true
}

// specSortedKeys: canonical (sorted) key order for the oracle's own object
// iteration; the order the implementation uses is explored separately.
func specSortedKeys(m map[string]interface{}) []string {
	var ks []string
	for k := range m {
		ks = append(ks, k)
	}
	for i := 1; i < len(ks); i++ {
		for j := i; j > 0 && ks[j] < ks[j-1]; j-- {
			ks[j], ks[j-1] = ks[j-1], ks[j]
		}
	}
	return ks
}

func specProject(r *specNode, elems []interface{}, env *specEnv) (interface{}, bool) {
	out := []interface{}{}
	for _, el := range elems {
		x, e := specEval(r, el, env)
		if e {
			return nil, true
		}
		if x != nil {
			out = append(out, x)
		}
	}
	return out, false
}

func specEval(n *specNode, v interface{}, env *specEnv) (interface{}, bool) {
	switch n.op {
	case "field":
		if m, ok := v.(map[string]interface{}); ok {
			return m[n.s], false
		}
		return nil, false
	case "index":
		arr, ok := v.([]interface{})
		if !ok {
			return nil, false
		}
		i := n.intAt(0, env)
		if i < 0 {
			i += len(arr)
		}
		if i >= 0 && i < len(arr) {
			return arr[i], false
		}
		return nil, false
	case "sub", "pipe":
		l, e := specEval(n.kids[0], v, env)
		if e {
			return nil, true
		}
		return specEval(n.kids[1], l, env)
	case "lit":
		return n.lit, false
	case "raw":
		return n.s, false
	case "cur", "id":
		return v, false
	case "list":
		if v == nil {
			return nil, false
		}
		out := []interface{}{}
		for _, k := range n.kids {
			x, e := specEval(k, v, env)
			if e {
				return nil, true
			}
			out = append(out, x)
		}
		return out, false
	case "hash":
		if v == nil {
			return nil, false
		}
		out := map[string]interface{}{}
		for _, k := range n.kids {
			x, e := specEval(k.kids[0], v, env)
			if e {
				return nil, true
			}
			out[k.s] = x
		}
		return out, false
	case "proj":
		l, e := specEval(n.kids[0], v, env)
		if e {
			return nil, true
		}
		arr, ok := l.([]interface{})
		if !ok {
			return nil, false
		}
		return specProject(n.kids[1], arr, env)
	case "vproj":
		l, e := specEval(n.kids[0], v, env)
		if e {
			return nil, true
		}
		m, ok := l.(map[string]interface{})
		if !ok {
			return nil, false
		}
		var vals []interface{}
		for _, k := range specSortedKeys(m) {
			vals = append(vals, m[k])
		}
		return specProject(n.kids[1], vals, env)
	case "flat":
		l, e := specEval(n.kids[0], v, env)
		if e {
			return nil, true
		}
		arr, ok := l.([]interface{})
		if !ok {
			return nil, false
		}
		var flat []interface{}
		for _, el := range arr {
			if sub, ok := el.([]interface{}); ok {
				flat = append(flat, sub...)
			} else {
				flat = append(flat, el)
			}
		}
		return specProject(n.kids[1], flat, env)
	case "filter":
		l, e := specEval(n.kids[0], v, env)
		if e {
			return nil, true
		}
		arr, ok := l.([]interface{})
		if !ok {
			return nil, false
		}
		var keep []interface{}
		for _, el := range arr {
			c, e := specEval(n.kids[1], el, env)
			if e {
				return nil, true
			}
			if specTruthy(c) {
				keep = append(keep, el)
			}
		}
		// the right-hand side is applied to kept elements in order; an error
		// in it surfaces only for kept elements
		return specProject(n.kids[2], keep, env)
	case "slice":
		l, e := specEval(n.kids[0], v, env)
		if e {
			return nil, true
		}
		arr, ok := l.([]interface{})
		if !ok {
			return nil, false
		}
		step := 1
		if n.has[2] {
			step = n.intAt(2, env)
			if step == 0 {
				return nil, true
			}
		}
		L := len(arr)
		neg := step < 0
		s := pyClamp(L, n.intAt(0, env), n.has[0], neg, true)
		en := pyClamp(L, n.intAt(1, env), n.has[1], neg, false)
		var sel []interface{}
		if !neg {
			for p := 0; p < L; p++ {
				if pySelected(p, s, en, step, L) {
					sel = append(sel, arr[p])
				}
			}
		} else {
			for p := L - 1; p >= 0; p-- {
				if pySelected(p, s, en, step, L) {
					sel = append(sel, arr[p])
				}
			}
		}
		return specProject(n.kids[1], sel, env)
	case "or":
		l, e := specEval(n.kids[0], v, env)
		if e {
			return nil, true
		}
		if specTruthy(l) {
			return l, false
		}
		return specEval(n.kids[1], v, env)
	case "and":
		l, e := specEval(n.kids[0], v, env)
		if e {
			return nil, true
		}
		if !specTruthy(l) {
			return l, false
		}
		return specEval(n.kids[1], v, env)
	case "not":
		l, e := specEval(n.kids[0], v, env)
		if e {
			return nil, true
		}
		return !specTruthy(l), false
	case "cmp":
		l, e := specEval(n.kids[0], v, env)
		if e {
			return nil, true
		}
		r, e := specEval(n.kids[1], v, env)
		if e {
			return nil, true
		}
		switch n.s {
		case "eq":
			return verifDeepEqual(l, r), false
		case "ne":
			return !verifDeepEqual(l, r), false
		}
		lf, ok1 := l.(float64)
		rf, ok2 := r.(float64)
		if !ok1 || !ok2 {
			return nil, false
		}
		switch n.s {
		case "lt":
			return lf < rf, false
		case "le":
			return lf <= rf, false
		case "gt":
			return lf > rf, false
		case "ge":
			return lf >= rf, false
		}
		panic("spec: comparator " + n.s)
	case "ref":
		return specRef{n.kids[0]}, false
	case "call":
		var args []interface{}
		for _, k := range n.kids {
			x, e := specEval(k, v, env)
			if e {
				return nil, true
			}
			args = append(args, x)
		}
		return specCall(n.s, args, env)
	}
	panic("spec: unknown op " + n.op)
}

// ---- function library (Appendix C) ----

// parameter types: n number, s string, a array, o object, N array[number],
// S array[string], e expref, y any (not an expression reference).
// A trailing '*' marks the last parameter as variadic (one or more).
var specSignatures = map[string][]string{
	"abs": {"n"}, "avg": {"N"}, "ceil": {"n"}, "contains": {"as", "y"}, "ends_with": {"s", "s"}, "floor": {"n"},
	"join": {"s", "S"}, "keys": {"o"}, "length": {"sao"}, "map": {"e", "a"}, "max": {"NS"}, "max_by": {"a", "e"},
	"merge": {"o*"}, "min": {"NS"}, "min_by": {"a", "e"}, "not_null": {"y*"}, "reverse": {"sa"}, "sort": {"NS"},
	"sort_by": {"a", "e"}, "starts_with": {"s", "s"}, "sum": {"N"}, "to_array": {"y"}, "to_string": {"y"},
	"to_number": {"y"}, "type": {"y"}, "values": {"o"},
}

func specIsArrayOf(v interface{}, num bool) bool {
	arr, ok := v.([]interface{})
	if !ok {
		return false
	}
	for _, el := range arr {
		if num {
			if _, ok := el.(float64); !ok {
				return false
			}
		} else {
			if _, ok := el.(string); !ok {
				return false
			}
		}
	}
	return true
}

func specTypeOK(v interface{}, alts string) bool {
	for i := 0; i < len(alts); i++ {
		switch alts[i] {
		case 'n':
			if _, ok := v.(float64); ok {
				return true
			}
		case 's':
			if _, ok := v.(string); ok {
				return true
			}
		case 'a':
			if _, ok := v.([]interface{}); ok {
				return true
			}
		case 'o':
			if _, ok := v.(map[string]interface{}); ok {
				return true
			}
		case 'N':
			if specIsArrayOf(v, true) {
				return true
			}
		case 'S':
			if specIsArrayOf(v, false) {
				return true
			}
		case 'e':
			if _, ok := v.(specRef); ok {
				return true
			}
		case 'y':
			if _, ok := v.(specRef); !ok {
				return true
			}
		}
	}
	return false
}

// specKeys evaluates the by-expression on every element; all keys must be
// numbers or all must be strings.
func specKeys(arr []interface{}, ref specRef, env *specEnv) (nums []float64, strs []string, isNum bool, bad bool) {
	for i, el := range arr {
		k, e := specEval(ref.n, el, env)
		if e {
			return nil, nil, false, true
		}
		switch x := k.(type) {
		case float64:
			if i > 0 && !isNum {
				return nil, nil, false, true
			}
			isNum = true
			nums = append(nums, x)
		case string:
			if i > 0 && isNum {
				return nil, nil, false, true
			}
			strs = append(strs, x)
		default:
			return nil, nil, false, true
		}
	}
	return nums, strs, isNum, false
}

func specCall(name string, args []interface{}, env *specEnv) (interface{}, bool) {
	sig, ok := specSignatures[name]
	if !ok {
		return nil, true
	}
	variadic := strings.HasSuffix(sig[len(sig)-1], "*")
	if variadic {
		if len(args) < len(sig) {
			return nil, true
		}
	} else if len(args) != len(sig) {
		return nil, true
	}
	for i, a := range args {
		k := i
		if k >= len(sig) {
			k = len(sig) - 1
		}
		if !specTypeOK(a, strings.TrimSuffix(sig[k], "*")) {
			return nil, true
		}
	}
	switch name {
	case "abs":
		return math.Abs(args[0].(float64)), false
	case "ceil":
		return math.Ceil(args[0].(float64)), false
	case "floor":
		return math.Floor(args[0].(float64)), false
	case "avg":
		arr := args[0].([]interface{})
		if len(arr) == 0 {
			return nil, false
		}
		sum := 0.0
		for _, el := range arr {
			sum += el.(float64)
		}
		return sum / float64(len(arr)), false
	case "sum":
		sum := 0.0
		for _, el := range args[0].([]interface{}) {
			sum += el.(float64)
		}
		return sum, false
	case "contains":
		if s, ok := args[0].(string); ok {
			if sub, ok := args[1].(string); ok {
				return strings.Contains(s, sub), false
			}
			return false, false
		}
		for _, el := range args[0].([]interface{}) {
			if verifDeepEqual(el, args[1]) {
				return true, false
			}
		}
		return false, false
	case "starts_with":
		return strings.HasPrefix(args[0].(string), args[1].(string)), false
	case "ends_with":
		return strings.HasSuffix(args[0].(string), args[1].(string)), false
	case "join":
		out := ""
		for i, el := range args[1].([]interface{}) {
			if i > 0 {
				out += args[0].(string)
			}
			out += el.(string)
		}
		return out, false
	case "keys":
		out := []interface{}{}
		for _, k := range specSortedKeys(args[0].(map[string]interface{})) {
			out = append(out, k)
		}
		return out, false
	case "values":
		m := args[0].(map[string]interface{})
		out := []interface{}{}
		for _, k := range specSortedKeys(m) {
			out = append(out, m[k])
		}
		return out, false
	case "length":
		switch x := args[0].(type) {
		case string:
			return float64(utf8.RuneCountInString(x)), false
		case []interface{}:
			return float64(len(x)), false
		case map[string]interface{}:
			return float64(len(x)), false
		}
	case "map":
		ref := args[0].(specRef)
		out := []interface{}{}
		for _, el := range args[1].([]interface{}) {
			x, e := specEval(ref.n, el, env)
			if e {
				return nil, true
			}
			out = append(out, x)
		}
		return out, false
	case "max", "min":
		arr := args[0].([]interface{})
		if len(arr) == 0 {
			return nil, false
		}
		best := arr[0]
		for _, el := range arr[1:] {
			better := false
			if f, ok := el.(float64); ok {
				if name == "max" {
					better = f > best.(float64)
				} else {
					better = f < best.(float64)
				}
			} else {
				if name == "max" {
					better = el.(string) > best.(string)
				} else {
					better = el.(string) < best.(string)
				}
			}
			if better {
				best = el
			}
		}
		return best, false
	case "max_by", "min_by":
		arr := args[0].([]interface{})
		nums, strs, isNum, bad := specKeys(arr, args[1].(specRef), env)
		if bad {
			return nil, true
		}
		if len(arr) == 0 {
			return nil, false
		}
		bi := 0
		for i := 1; i < len(arr); i++ {
			better := false
			if isNum {
				if name == "max_by" {
					better = nums[i] > nums[bi]
				} else {
					better = nums[i] < nums[bi]
				}
			} else {
				if name == "max_by" {
					better = strs[i] > strs[bi]
				} else {
					better = strs[i] < strs[bi]
				}
			}
			if better {
				bi = i
			}
		}
		return arr[bi], false
	case "merge":
		out := map[string]interface{}{}
		for _, a := range args {
			m := a.(map[string]interface{})
			for _, k := range specSortedKeys(m) {
				out[k] = m[k]
			}
		}
		return out, false
	case "not_null":
		for _, a := range args {
			if a != nil {
				return a, false
			}
		}
		return nil, false
	case "reverse":
		if s, ok := args[0].(string); ok {
			out := ""
			for len(s) > 0 {
				_, w := utf8.DecodeRuneInString(s)
				out = s[:w] + out
				s = s[w:]
			}
			return out, false
		}
		arr := args[0].([]interface{})
		out := make([]interface{}, len(arr))
		for i := range arr {
			out[len(arr)-1-i] = arr[i]
		}
		return out, false
	case "sort":
		arr := args[0].([]interface{})
		out := make([]interface{}, len(arr))
		copy(out, arr)
		for i := 1; i < len(out); i++ {
			for j := i; j > 0; j-- {
				less := false
				if f, ok := out[j].(float64); ok {
					less = f < out[j-1].(float64)
				} else {
					less = out[j].(string) < out[j-1].(string)
				}
				if !less {
					break
				}
				out[j], out[j-1] = out[j-1], out[j]
			}
		}
		return out, false
	case "sort_by":
		arr := args[0].([]interface{})
		nums, strs, isNum, bad := specKeys(arr, args[1].(specRef), env)
		if bad {
			return nil, true
		}
		idx := make([]int, len(arr))
		for i := range idx {
			idx[i] = i
		}
		for i := 1; i < len(idx); i++ {
			for j := i; j > 0; j-- {
				less := false
				if isNum {
					less = nums[idx[j]] < nums[idx[j-1]]
				} else {
					less = strs[idx[j]] < strs[idx[j-1]]
				}
				if !less {
					break
				}
				idx[j], idx[j-1] = idx[j-1], idx[j]
			}
		}
		out := make([]interface{}, len(arr))
		for i := range idx {
			out[i] = arr[idx[i]]
		}
		return out, false
	case "to_array":
		if _, ok := args[0].([]interface{}); ok {
			return args[0], false
		}
		return []interface{}{args[0]}, false
	case "to_string":
		if s, ok := args[0].(string); ok {
			return s, false
		}
		return specJSONTextOf{args[0]}, false
	case "to_number":
		switch x := args[0].(type) {
		case float64:
			return x, false
		case string:
			return specToNumber{x}, false
		}
		return nil, false
	case "type":
		switch args[0].(type) {
		case nil:
			return "null", false
		case bool:
			return "boolean", false
		case float64:
			return "number", false
		case string:
			return "string", false
		case []interface{}:
			return "array", false
		case map[string]interface{}:
			return "object", false
		}
	}
	panic("spec: function " + name)
}

// specMatch: does the implementation's result equal the specified value?
var specDepth int

func specMatch(got, want interface{}) bool {
	specDepth++
	defer func() { specDepth-- }()
	if specDepth > 64 {
		return false
	}
	if verifSameNode(got, want) {
		return true
	}
	switch w := want.(type) {
	case specJSONTextOf:
		s, ok := got.(string)
		return ok && verifMarshalOf(s, w.v)
	case specToNumber:
		if got == nil {
			return true
		}
		f, ok := got.(float64)
		return ok && verifFinite(f)
	case specRef:
		return false
	case []interface{}:
		g, ok := got.([]interface{})
		if !ok || len(g) != len(w) || g == nil {
			return false
		}
		for i := range w {
			if !specMatch(g[i], w[i]) {
				return false
			}
		}
		return true
	case map[string]interface{}:
		g, ok := got.(map[string]interface{})
		if !ok || len(g) != len(w) || g == nil {
			return false
		}
		for _, k := range specSortedKeys(w) {
			gv, present := g[k]
			if !present || !specMatch(gv, w[k]) {
				return false
			}
		}
		return true
	}
	return verifDeepEqual(got, want)
}

// specMatchMultiset: lists equal up to order (results of object iteration).
func specMatchMultiset(got, want interface{}) bool {
	w, ok := want.([]interface{})
	if !ok {
		return specMatch(got, want)
	}
	g, ok := got.([]interface{})
	if !ok || g == nil || len(g) != len(w) {
		return false
	}
	used := make([]bool, len(w))
	matched := make([]bool, len(g))
	// first pair up results that are the very same document node
	for i := range g {
		for j := range w {
			if !used[j] && verifSameNode(g[i], w[j]) {
				used[j] = true
				matched[i] = true
				break
			}
		}
	}
	for i := range g {
		if matched[i] {
			continue
		}
		found := false
		for j := range w {
			if !used[j] && specMatch(g[i], w[j]) {
				used[j] = true
				found = true
				break
			}
		}
		if !found {
			return false
		}
	}
	return true
}

// verifIsJSON: the result invariant of C16.
func verifIsJSON(v interface{}) bool {
	specDepth++
	defer func() { specDepth-- }()
	if specDepth > 64 {
		return false // cyclic: not serialisable
	}
	if verifIsLazy(v) {
		return true // an untouched part of the input document
	}
	switch x := v.(type) {
	case nil, bool, string:
		return true
	case float64:
		return verifFinite(x)
	case []interface{}:
		if x == nil {
			return false
		}
		for _, el := range x {
			if !verifIsJSON(el) {
				return false
			}
		}
		return true
	case map[string]interface{}:
		if x == nil {
			return false
		}
		for _, k := range specSortedKeys(x) {
			if !verifIsJSON(x[k]) {
				return false
			}
		}
		return true
	}
	return false
}
