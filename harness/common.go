//go:build verif || verifnative

package jmespath

// panic values used by the native replay runner
type verifAssertFail struct{ id string }
type verifAssumeFail struct{}
type verifTapeMismatch struct{ msg string }
