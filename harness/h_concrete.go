//go:build verif || verifnative

package jmespath

import "encoding/json"

// VerifConcrete: one of the repository's own compliance cases pushed through
// the executor in concrete mode; the native run of the same harness must
// agree (translator validation, DESIGN 3.7).
func VerifConcrete() {
	var doc interface{}
	if err := json.Unmarshal([]byte(verifParamStr("doc")), &doc); err != nil {
		verifNote("baddoc", true)
		return
	}
	r, err := Search(verifParamStr("expr"), doc)
	verifNote("err", err != nil)
	if err == nil {
		verifNote("result", r)
	}
}
