//go:build verif || verifnative

package jmespath

// H-EVAL: the public Search(text, doc) on a concrete expression template and
// a lazily materialised symbolic JSON document, compared with specEval.
// Integer payloads written ?k in the oracle's tree are free 64-bit solver
// variables: the template text carries the placeholder 990000+k, which is
// overwritten in the parsed AST before evaluation (api.go:41-48 inlined).

const verifPlaceholderBase = 990000

func verifPatchInts(n *ASTNode, ints []int) {
	switch n.nodeType {
	case ASTIndex:
		if v, ok := n.value.(int); ok && v > verifPlaceholderBase && v <= verifPlaceholderBase+len(ints) {
			n.value = ints[v-verifPlaceholderBase-1]
		}
	case ASTSlice:
		if parts, ok := n.value.([]*int); ok {
			np := make([]*int, len(parts))
			for i, p := range parts {
				np[i] = p
				if p != nil && *p > verifPlaceholderBase && *p <= verifPlaceholderBase+len(ints) {
					v := ints[*p-verifPlaceholderBase-1]
					np[i] = &v
				}
			}
			n.value = np
		}
	}
	for i := range n.children {
		verifPatchInts(&n.children[i], ints)
	}
}

func verifSearchPatched(text string, doc interface{}, ints []int) (interface{}, error) {
	intr := newInterpreter()
	parser := NewParser()
	ast, err := parser.Parse(text)
	if err != nil {
		return nil, err
	}
	verifPatchInts(&ast, ints)
	return intr.Execute(ast, doc)
}

func VerifEval() {
	text := verifParamStr("expr")
	spec := specParse(verifParamStr("spec"))
	prop := verifParamStr("prop")
	mode := verifParam("mode")
	depth := verifParam("depth")
	nints := verifParam("ints")
	ints := make([]int, nints)
	for i := range ints {
		ints[i] = verifNondetInt()
	}
	doc := verifNondetJSON(depth)
	verifFreeze()
	var got interface{}
	var err error
	if nints == 0 {
		got, err = Search(text, doc)
	} else {
		got, err = verifSearchPatched(text, doc, ints)
	}
	verifThaw()
	verifNote("err", err != nil)
	want, werr := specEval(spec, doc, &specEnv{ints})
	if verifHasParam("onlyerr") {
		// C10 / C11 state one direction only: a specified error must be reported
		// (a spurious error is a conformance matter of C01/C02/C09)
		verifAssert(!werr || err != nil, prop+":specified-error-not-reported")
		if err != nil {
			verifAssert(got == nil, prop+":no-value-with-error")
		}
		return
	}
	verifAssert((err != nil) == werr, prop+":error-iff-specified")
	if err != nil {
		verifAssert(got == nil, prop+":no-value-with-error")
		return
	}
	if werr {
		return
	}
	verifAssert(verifIsJSON(got), "C16:result-is-json")
	switch mode {
	case 0:
		verifAssert(specMatch(got, want), prop+":value")
		verifNote("got", got)
	case 1:
		verifAssert(specMatchMultiset(got, want), prop+":value-up-to-member-order")
	}
}
