//go:build verif || verifnative

package jmespath

// C08 kernel harness: the real slice()/computeSliceParams()/capSlice() on an
// array of length 0..L whose elements are position markers; start, stop, step
// are free 64-bit ints and each may be present or absent.
//
// Oracle: Python extended slicing (PySlice_AdjustIndices + range semantics),
// written without any arithmetic that can wrap:
//   - negative bound: v+length is exact because v<0<=length;
//   - membership of position p: distance d from start is in [0,L), and p is
//     selected iff d==0 or |step|<=L and k*|step|==d for some k in 1..L
//     (no overflow since |step|<=L, k<=L).

func pyClamp(length, v int, has, stepNeg, isStart bool) int {
	lo := verifIteInt(stepNeg, -1, 0)
	hi := verifIteInt(stepNeg, length-1, length)
	w := v + length
	adj := verifIteInt(v < 0, verifIteInt(w < 0, lo, w), verifIteInt(v >= length, hi, v))
	var def int
	if isStart {
		def = verifIteInt(stepNeg, length-1, 0)
	} else {
		def = verifIteInt(stepNeg, -1, length)
	}
	return verifIteInt(has, adj, def)
}

// pySelected: is position p selected by [s:e:step] (s, e already adjusted)?
func pySelected(p, s, e, step, L int) bool {
	pos := step > 0
	d := verifIteInt(pos, p-s, s-p)
	m := verifIteInt(pos, step, -step) // |step| (MinInt64 stays negative: then m<1 and only d==0 hits)
	inRange := verifOr(verifAnd(pos, verifAnd(s <= p, p < e)), verifAnd(!pos, verifAnd(e < p, p <= s)))
	hit := d == 0
	small := verifAnd(m >= 1, m <= L)
	for k := 1; k <= L; k++ {
		hit = verifOr(hit, verifAnd(small, k*m == d))
	}
	return verifAnd(inRange, hit)
}

func VerifSliceKernel() {
	L := verifParam("L")
	n := verifChoose(L + 1)
	arr := make([]interface{}, n)
	for i := range arr {
		arr[i] = i
	}
	parts := []sliceParam{
		{verifNondetInt(), verifNondetBool()},
		{verifNondetInt(), verifNondetBool()},
		{verifNondetInt(), verifNondetBool()},
	}
	zeroStep := verifAnd(parts[2].Specified, parts[2].N == 0)
	res, err := slice(arr, parts)
	verifNote("err", err != nil)
	verifAssert((err != nil) == zeroStep, "C08:error-iff-zero-step")
	if err != nil {
		return
	}
	verifNote("len", len(res))
	step := verifIteInt(parts[2].Specified, parts[2].N, 1)
	neg := step < 0
	s := pyClamp(n, parts[0].N, parts[0].Specified, neg, true)
	e := pyClamp(n, parts[1].N, parts[1].Specified, neg, false)
	count := 0
	for p := 0; p < n; p++ {
		count += verifIteInt(pySelected(p, s, e, step, L), 1, 0)
	}
	verifAssert(count == len(res), "C08:selected-count")
	prev := 0
	for j := 0; j < len(res); j++ {
		q, ok := res[j].(int)
		verifAssert(ok, "C08:element-is-input-element")
		if !ok {
			return
		}
		verifAssert(verifAnd(verifAnd(q >= 0, q < n), pySelected(q, s, e, step, L)), "C08:element-selected")
		if j > 0 {
			verifAssert(verifOr(verifAnd(!neg, prev < q), verifAnd(neg, prev > q)), "C08:order")
		}
		prev = q
	}
	verifNote("res", res)
}
