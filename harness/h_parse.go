//go:build verif || verifnative

package jmespath

import (
	"encoding/json"
	"strconv"
)

// ---------------------------------------------------------------------
// H-PARSE: the real (*Parser).Parse with tokenize replaced by a stub that
// returns n tokens whose *types are solver variables* (+ tEOF). Natively the
// same token sequence is spelled as text and goes through the real lexer.
// ---------------------------------------------------------------------

var verifStubActive bool
var verifStubToks []token

func verifTokenizeHook(expression string) ([]token, error) {
	return verifStubToks, nil
}

// fixed spelling per token type (payload-carrying types are spelled from the payload)
var verifSpelling = map[tokType]string{
	tUnknown: "=", tStar: "*", tDot: ".", tFilter: "[?", tFlatten: "[]", tLparen: "(", tRparen: ")",
	tLbracket: "[", tRbracket: "]", tLbrace: "{", tRbrace: "}", tOr: "||", tPipe: "|", tComma: ",",
	tColon: ":", tLT: "<", tLTE: "<=", tGT: ">", tGTE: ">=", tEQ: "==", tNE: "!=", tCurrent: "@",
	tExpref: "&", tAnd: "&&", tNot: "!",
}

// every token is spelled in a cell of verifCell characters (padded with
// blanks: whitespace between tokens is insignificant), so token positions are
// concrete; JSON literals and raw strings report the position after the
// opening quote.
const verifCell = 5

// two payload bytes per token; for tNumber they are solver variables
// ('-' or digit, then digit), otherwise fixed by type and position.
var verifPay0 = map[tokType]byte{tUnquotedIdentifier: 'a', tQuotedIdentifier: 'q', tJSONLiteral: '1', tStringLiteral: 'r'}

func verifSpellTokens(toks []token) string {
	parts := []string{}
	for _, t := range toks {
		switch t.tokenType {
		case tEOF:
		case tNumber, tUnquotedIdentifier:
			parts = append(parts, t.value)
		case tQuotedIdentifier:
			parts = append(parts, "\""+t.value+"\"")
		case tJSONLiteral:
			parts = append(parts, "`"+t.value+"`")
		case tStringLiteral:
			parts = append(parts, "'"+t.value+"'")
		default:
			parts = append(parts, verifSpelling[t.tokenType])
		}
	}
	out := ""
	for i, p := range parts {
		_ = i
		for len(p) < verifCell {
			p += " "
		}
		out += p
	}
	return out
}

// verifSymTokens builds n tokens with symbolic types drawn from the
// alphabet selected by the job parameter "alpha" (0 = all 30 types).
func verifSymTokens(n int) []token {
	alpha := 0
	if verifHasParam("alpha") {
		alpha = verifParam("alpha")
	}
	toks := make([]token, 0, n+1)
	pos := 0
	for i := 0; i < n; i++ {
		tt := tokType(verifNondetInt())
		verifAssume(verifAnd(tt >= tUnknown, tt < tEOF))
		switch alpha {
		case 1: // brackets, indices and slices
			verifAssume(verifOr(verifOr(verifOr(tt == tLbracket, tt == tRbracket), verifOr(tt == tFlatten, tt == tColon)),
				verifOr(verifOr(tt == tNumber, tt == tComma), verifOr(tt == tUnquotedIdentifier, tt == tStar))))
		case 2: // multi-select hash
			verifAssume(verifOr(verifOr(tt == tLbrace, tt == tRbrace), verifOr(verifOr(tt == tColon, tt == tComma), tt == tUnquotedIdentifier)))
		case 3: // calls and parentheses
			verifAssume(verifOr(verifOr(verifOr(tt == tLparen, tt == tRparen), verifOr(tt == tComma, tt == tUnquotedIdentifier)),
				verifOr(verifOr(tt == tCurrent, tt == tExpref), tt == tJSONLiteral)))
		case 5: // projections: brackets, wildcards, filters, flatten, dots
			verifAssume(verifOr(verifOr(verifOr(tt == tLbracket, tt == tRbracket), verifOr(tt == tStar, tt == tDot)),
				verifOr(verifOr(tt == tUnquotedIdentifier, tt == tFilter), verifOr(tt == tFlatten, tt == tPipe))))
		case 4: // operators and identifiers (precedence)
			verifAssume(verifOr(verifOr(verifOr(tt == tPipe, tt == tOr), verifOr(tt == tAnd, tt == tEQ)),
				verifOr(verifOr(verifOr(tt == tLT, tt == tNot), verifOr(tt == tDot, tt == tUnquotedIdentifier)), verifOr(tt == tStar, tt == tFlatten))))
		}
		n0 := verifNondetByte()
		n1 := verifNondetByte()
		verifAssume(verifAnd(verifOr(n0 == '-', verifAnd(n0 >= '0', n0 <= '9')), verifAnd(n1 >= '0', n1 <= '9')))
		isNum := tt == tNumber
		b0 := byte(verifIteInt(isNum, int(n0), int(verifPay0[tt])))
		b1 := byte(verifIteInt(isNum, int(n1), '0'+i))
		val := string([]byte{b0, b1})
		adj := verifIteInt(verifOr(tt == tJSONLiteral, tt == tStringLiteral), 1, 0)
		toks = append(toks, token{tokenType: tt, value: val, position: pos + adj, length: 2})
		pos += verifCell
	}
	toks = append(toks, token{tEOF, "", n * verifCell, 0})
	return toks
}

// verifParseTokens runs the real parser on the token sequence: through the
// tokenize stub in the executor, through the real lexer natively.
func verifParseTokens(p *Parser, toks []token) (ASTNode, error, string) {
	expr := "?"
	if verifNative() {
		expr = verifSpellTokens(toks)
		// the spelling must lex back to the same token types and payloads
		got, err := NewLexer().tokenize(expr)
		if err != nil || len(got) != len(toks) {
			panic(verifTapeMismatch{"spelled tokens do not lex back: " + expr})
		}
		for i := range got {
			if got[i].tokenType != toks[i].tokenType || got[i].position != toks[i].position {
				panic(verifTapeMismatch{"spelled tokens lex differently: " + expr})
			}
		}
	}
	verifStubToks = toks
	verifStubActive = !verifNative()
	ast, err := p.Parse(expr)
	verifStubActive = false
	return ast, err, expr
}

// ---------------------------------------------------------------------
// ASTInv: what the interpreter relies on (section 4 of DESIGN.md)
// ---------------------------------------------------------------------
func verifASTWellFormed(n ASTNode, inArg bool) bool {
	kids := len(n.children)
	okKids := true
	for i := range n.children {
		childIsArg := n.nodeType == ASTFunctionExpression
		if !verifASTWellFormed(n.children[i], childIsArg) {
			okKids = false
		}
	}
	if !okKids {
		return false
	}
	switch n.nodeType {
	case ASTEmpty:
		return false
	case ASTComparator:
		t, ok := n.value.(tokType)
		return kids == 2 && ok && (t == tEQ || t == tNE || t == tLT || t == tLTE || t == tGT || t == tGTE)
	case ASTCurrentNode, ASTIdentity:
		return kids == 0
	case ASTExpRef:
		return kids == 1 && inArg
	case ASTFunctionExpression:
		_, ok := n.value.(string)
		return ok
	case ASTField:
		_, ok := n.value.(string)
		return ok && kids == 0
	case ASTFilterProjection:
		return kids == 3
	case ASTFlatten, ASTNotExpression:
		return kids == 1
	case ASTIndex:
		_, ok := n.value.(int)
		return ok && kids == 0
	case ASTIndexExpression, ASTOrExpression, ASTAndExpression, ASTPipe, ASTProjection, ASTSubexpression, ASTValueProjection:
		return kids == 2
	case ASTKeyValPair:
		_, ok := n.value.(string)
		return ok && kids == 1
	case ASTLiteral:
		return kids == 0
	case ASTMultiSelectHash:
		for i := range n.children {
			if n.children[i].nodeType != ASTKeyValPair {
				return false
			}
		}
		return kids >= 1
	case ASTMultiSelectList:
		return kids >= 1
	case ASTSlice:
		p, ok := n.value.([]*int)
		return ok && len(p) == 3 && kids == 0
	}
	return false
}

// ---------------------------------------------------------------------
// Reference parser (C03): written from the precedence table of the
// specification; strict about the grammar.
// ---------------------------------------------------------------------
var verifRefBP = map[tokType]int{
	tPipe: 1, tOr: 2, tAnd: 3, tEQ: 5, tLT: 5, tLTE: 5, tGT: 5, tGTE: 5, tNE: 5, tFlatten: 9, tStar: 20, tFilter: 21,
	tDot: 40, tNot: 45, tLbrace: 50, tLbracket: 55, tLparen: 60,
}

type verifRef struct {
	toks []token
	i    int
	bad  bool
}

func (r *verifRef) cur() tokType {
	if r.i >= len(r.toks) {
		return tEOF
	}
	return r.toks[r.i].tokenType
}
func (r *verifRef) peek(k int) tokType {
	if r.i+k >= len(r.toks) {
		return tEOF
	}
	return r.toks[r.i+k].tokenType
}
func (r *verifRef) expect(t tokType) {
	if r.cur() == t {
		r.i++
	} else {
		r.bad = true
	}
}

func (r *verifRef) expr(rbp int) ASTNode {
	if r.bad || r.i >= len(r.toks) {
		r.bad = true
		return ASTNode{}
	}
	t := r.toks[r.i]
	r.i++
	left := r.nud(t)
	for !r.bad && rbp < verifRefBP[r.cur()] {
		op := r.cur()
		r.i++
		left = r.led(op, left)
	}
	return left
}

func (r *verifRef) number() int {
	n, err := strconv.Atoi(r.toks[r.i].value)
	if err != nil {
		r.bad = true
	}
	r.i++
	return n
}

// bracket-specifier body after "[" when the next token is a number or a colon
func (r *verifRef) indexOrSlice() ASTNode {
	if r.cur() == tNumber && r.peek(1) == tRbracket {
		n := r.number()
		r.i++
		return ASTNode{nodeType: ASTIndex, value: n}
	}
	parts := []*int{nil, nil, nil}
	colons := 0
	idx := 0
	for !r.bad && r.cur() != tRbracket {
		if r.cur() == tColon {
			colons++
			idx++
			if idx > 2 {
				r.bad = true
			}
			r.i++
		} else if r.cur() == tNumber {
			if parts[idx] != nil {
				r.bad = true
			}
			n := r.number()
			parts[idx] = &n
		} else {
			r.bad = true
		}
	}
	if colons == 0 {
		r.bad = true
	}
	r.expect(tRbracket)
	return ASTNode{nodeType: ASTSlice, value: parts}
}

func (r *verifRef) projectIfSlice(left, right ASTNode) ASTNode {
	ie := ASTNode{nodeType: ASTIndexExpression, children: []ASTNode{left, right}}
	if right.nodeType == ASTSlice {
		return ASTNode{nodeType: ASTProjection, children: []ASTNode{ie, r.projRHS(20)}}
	}
	return ie
}

func (r *verifRef) projRHS(bp int) ASTNode {
	c := r.cur()
	if verifRefBP[c] < 10 {
		return ASTNode{nodeType: ASTIdentity}
	}
	switch c {
	case tLbracket:
		n := r.peek(1)
		if n == tNumber || n == tColon || (n == tStar && r.peek(2) == tRbracket) {
			return r.expr(bp)
		}
		r.bad = true
	case tFilter:
		return r.expr(bp)
	case tDot:
		r.i++
		return r.dotRHS(bp)
	default:
		r.bad = true
	}
	return ASTNode{}
}

func (r *verifRef) dotRHS(bp int) ASTNode {
	switch r.cur() {
	case tQuotedIdentifier, tUnquotedIdentifier, tStar:
		return r.expr(bp)
	case tLbracket:
		r.i++
		return r.multiList()
	case tLbrace:
		r.i++
		return r.multiHash()
	}
	r.bad = true
	return ASTNode{}
}

func (r *verifRef) multiList() ASTNode {
	var kids []ASTNode
	for !r.bad {
		kids = append(kids, r.expr(0))
		if r.cur() == tRbracket {
			break
		}
		r.expect(tComma)
	}
	r.expect(tRbracket)
	return ASTNode{nodeType: ASTMultiSelectList, children: kids}
}

func (r *verifRef) multiHash() ASTNode {
	var kids []ASTNode
	for !r.bad {
		if r.cur() != tUnquotedIdentifier && r.cur() != tQuotedIdentifier {
			r.bad = true
			break
		}
		key := r.toks[r.i].value
		r.i++
		r.expect(tColon)
		v := r.expr(0)
		kids = append(kids, ASTNode{nodeType: ASTKeyValPair, value: key, children: []ASTNode{v}})
		if r.cur() == tComma {
			r.i++
			continue
		}
		r.expect(tRbrace)
		break
	}
	return ASTNode{nodeType: ASTMultiSelectHash, children: kids}
}

func (r *verifRef) filter(left ASTNode) ASTNode {
	cond := r.expr(0)
	r.expect(tRbracket)
	right := r.projRHS(21)
	return ASTNode{nodeType: ASTFilterProjection, children: []ASTNode{left, right, cond}}
}

func (r *verifRef) nud(t token) ASTNode {
	switch t.tokenType {
	case tJSONLiteral:
		var v interface{}
		if err := json.Unmarshal([]byte(t.value), &v); err != nil {
			r.bad = true
		}
		return ASTNode{nodeType: ASTLiteral, value: v}
	case tStringLiteral:
		return ASTNode{nodeType: ASTLiteral, value: t.value}
	case tUnquotedIdentifier:
		if r.cur() == tLparen {
			r.i++
			var args []ASTNode
			if r.cur() == tRparen {
				r.i++
				return ASTNode{nodeType: ASTFunctionExpression, value: t.value, children: args}
			}
			for !r.bad {
				if r.cur() == tExpref {
					r.i++
					e := r.expr(0)
					args = append(args, ASTNode{nodeType: ASTExpRef, children: []ASTNode{e}})
				} else {
					args = append(args, r.expr(0))
				}
				if r.cur() == tComma {
					r.i++
					continue
				}
				r.expect(tRparen)
				break
			}
			return ASTNode{nodeType: ASTFunctionExpression, value: t.value, children: args}
		}
		return ASTNode{nodeType: ASTField, value: t.value}
	case tQuotedIdentifier:
		if r.cur() == tLparen {
			r.bad = true
		}
		return ASTNode{nodeType: ASTField, value: t.value}
	case tStar:
		return ASTNode{nodeType: ASTValueProjection, children: []ASTNode{{nodeType: ASTIdentity}, r.projRHS(20)}}
	case tFilter:
		return r.filter(ASTNode{nodeType: ASTIdentity})
	case tLbrace:
		return r.multiHash()
	case tFlatten:
		left := ASTNode{nodeType: ASTFlatten, children: []ASTNode{{nodeType: ASTIdentity}}}
		return ASTNode{nodeType: ASTProjection, children: []ASTNode{left, r.projRHS(9)}}
	case tLbracket:
		c := r.cur()
		if c == tNumber || c == tColon {
			return r.projectIfSlice(ASTNode{nodeType: ASTIdentity}, r.indexOrSlice())
		}
		if c == tStar && r.peek(1) == tRbracket {
			r.i += 2
			return ASTNode{nodeType: ASTProjection, children: []ASTNode{{nodeType: ASTIdentity}, r.projRHS(20)}}
		}
		return r.multiList()
	case tCurrent:
		return ASTNode{nodeType: ASTCurrentNode}
	case tNot:
		return ASTNode{nodeType: ASTNotExpression, children: []ASTNode{r.expr(45)}}
	case tLparen:
		e := r.expr(0)
		r.expect(tRparen)
		return e
	}
	r.bad = true
	return ASTNode{}
}

func (r *verifRef) led(op tokType, left ASTNode) ASTNode {
	switch op {
	case tDot:
		if r.cur() != tStar {
			return ASTNode{nodeType: ASTSubexpression, children: []ASTNode{left, r.dotRHS(40)}}
		}
		r.i++
		return ASTNode{nodeType: ASTValueProjection, children: []ASTNode{left, r.projRHS(20)}}
	case tPipe:
		return ASTNode{nodeType: ASTPipe, children: []ASTNode{left, r.expr(1)}}
	case tOr:
		return ASTNode{nodeType: ASTOrExpression, children: []ASTNode{left, r.expr(2)}}
	case tAnd:
		return ASTNode{nodeType: ASTAndExpression, children: []ASTNode{left, r.expr(3)}}
	case tEQ, tNE, tGT, tGTE, tLT, tLTE:
		return ASTNode{nodeType: ASTComparator, value: op, children: []ASTNode{left, r.expr(5)}}
	case tFilter:
		return r.filter(left)
	case tFlatten:
		fl := ASTNode{nodeType: ASTFlatten, children: []ASTNode{left}}
		return ASTNode{nodeType: ASTProjection, children: []ASTNode{fl, r.projRHS(9)}}
	case tLbracket:
		c := r.cur()
		if c == tNumber || c == tColon {
			return r.projectIfSlice(left, r.indexOrSlice())
		}
		r.expect(tStar)
		r.expect(tRbracket)
		return ASTNode{nodeType: ASTProjection, children: []ASTNode{left, r.projRHS(20)}}
	}
	r.bad = true
	return ASTNode{}
}

func verifRefParse(toks []token) (ASTNode, bool) {
	r := &verifRef{toks: toks}
	ast := r.expr(0)
	if r.bad || r.cur() != tEOF || r.i != len(toks)-1 {
		return ASTNode{}, false
	}
	return ast, true
}

func verifValueEqual(a, b interface{}) bool {
	switch av := a.(type) {
	case nil:
		return b == nil
	case string:
		bv, ok := b.(string)
		return ok && av == bv
	case int:
		bv, ok := b.(int)
		return ok && av == bv
	case tokType:
		bv, ok := b.(tokType)
		return ok && av == bv
	case []*int:
		bv, ok := b.([]*int)
		if !ok || len(av) != len(bv) {
			return false
		}
		for i := range av {
			if (av[i] == nil) != (bv[i] == nil) {
				return false
			}
			if av[i] != nil && *av[i] != *bv[i] {
				return false
			}
		}
		return true
	}
	if _, ok := b.([]*int); ok {
		return false
	}
	return verifDeepEqual(a, b)
}

func verifASTEqual(a, b ASTNode) bool {
	if a.nodeType != b.nodeType || len(a.children) != len(b.children) {
		return false
	}
	if !verifValueEqual(a.value, b.value) {
		return false
	}
	for i := range a.children {
		if !verifASTEqual(a.children[i], b.children[i]) {
			return false
		}
	}
	return true
}

// VerifSexpr renders an AST canonically (node type, value including
// dereferenced slice bounds, children): the hook C03/C13 ask for.
func VerifSexpr(n ASTNode) string {
	s := "(" + n.nodeType.String()
	switch v := n.value.(type) {
	case nil:
	case []*int:
		for _, p := range v {
			if p == nil {
				s += " _"
			} else {
				s += " " + strconv.Itoa(*p)
			}
		}
	case tokType:
		s += " " + v.String()
	case string:
		s += " " + strconv.Quote(v)
	case int:
		s += " " + strconv.Itoa(v)
	default:
		b, _ := json.Marshal(v)
		s += " `" + string(b) + "`"
	}
	for _, c := range n.children {
		s += " " + VerifSexpr(c)
	}
	return s + ")"
}

// VerifParse: H-PARSE(n). Obligations: no panic (implicit), C04 accept iff
// grammatical + ASTInv, C03 AST equals the reference parser's, C17 error
// offsets are token positions.
func VerifParse() {
	n := verifParam("n")
	toks := verifSymTokens(n)
	types := make([]tokType, n)
	for i := 0; i < n; i++ {
		types[i] = toks[i].tokenType
	}
	p := NewParser()
	ast, err, expr := verifParseTokens(p, toks)
	accepted := err == nil
	verifNote("accepted", accepted)
	gram := verifGrammarAccepts(types)
	if accepted {
		verifAssert(gram, "C04:accepted-but-not-in-grammar")
		verifAssert(verifASTWellFormed(ast, false), "C04,C17:accepted-ast-not-usable")
		ref, ok := verifRefParse(toks)
		if ok {
			verifAssert(verifASTEqual(ast, ref), "C03:grouping-differs-from-precedence-rules")
		}
		return
	}
	// payload-dependent rejections (a number that is not an integer) are not grammar facts
	verifAssert(!gram, "C04:grammatical-but-rejected")
	if se, ok := err.(SyntaxError); ok {
		verifAssert(verifAnd(se.Offset >= 0, se.Offset <= toks[len(toks)-1].position), "C17:parser-offset-in-range")
		verifAssert(se.Expression == expr, "C17:parser-error-carries-expression")
		verifNote("offset", se.Offset)
	}
}
