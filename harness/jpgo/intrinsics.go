//go:build verif && !verifnative

package main

func verifNondetBool() bool
func verifNondetJSON(depth int) interface{}
func verifChoose(n int) int
func verifAssume(c bool)
func verifAssert(c bool, id string)
func verifNote(tag string, v interface{})
func verifNative() bool
func verifMarshalOf(s string, v interface{}) bool
func verifIsOpaque(s string) bool
func verifSameNode(a, b interface{}) bool
