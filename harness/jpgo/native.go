//go:build verifnative

package main

import (
	"encoding/json"
	"strconv"
	"strings"
)

type verifAssertFail struct{ id string }
type verifAssumeFail struct{}
type verifTapeMismatch struct{ msg string }

var (
	verifTape         []string
	verifTapePos      int
	verifParams       map[string]string
	verifNotes        []string
	verifAbstractUsed bool
)

func verifNext(kind string) string {
	if verifTapePos >= len(verifTape) {
		panic(verifTapeMismatch{"tape exhausted, wanted " + kind})
	}
	e := verifTape[verifTapePos]
	verifTapePos++
	if !strings.HasPrefix(e, kind+":") {
		panic(verifTapeMismatch{"tape has " + e + ", wanted " + kind})
	}
	return e[len(kind)+1:]
}
func verifNondetBool() bool { return verifNext("bool") == "true" }
func verifNondetJSON(depth int) interface{} {
	var v interface{}
	if err := json.Unmarshal([]byte(verifNext("json")), &v); err != nil {
		panic(verifTapeMismatch{"bad json on tape"})
	}
	return v
}
func verifChoose(n int) int { k, _ := strconv.Atoi(verifNext("int")); return k }
func verifAssume(c bool) {
	if !c {
		panic(verifAssumeFail{})
	}
}
func verifAssert(c bool, id string) {
	if !c {
		panic(verifAssertFail{id})
	}
}
func verifNote(tag string, v interface{}) {
	switch x := v.(type) {
	case bool:
		verifNotes = append(verifNotes, tag+"="+strconv.FormatBool(x))
	case int:
		verifNotes = append(verifNotes, tag+"="+strconv.Itoa(x))
	default:
		verifNotes = append(verifNotes, tag+"=?")
	}
}
func verifNative() bool                          { return true }
func verifIsOpaque(s string) bool                { return false }
func verifMarshalOf(s string, v interface{}) bool { b, err := json.Marshal(v); return err == nil && string(b) == s }
func verifSameNode(a, b interface{}) bool { return true }
