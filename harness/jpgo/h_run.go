//go:build verif || verifnative

package main

import (
	"bufio"
	"bytes"
	"encoding/json"
	"errors"
	"flag"
	"io"
	"io/ioutil"
	"os"
	"reflect"

	jmespath "github.com/jmespath/go-jmespath"
)

// C19: run() with its whole environment (flag, files, stdin, stdout/stderr,
// json, the library) replaced by nondeterministic stubs. A scenario fixes
// what each environment call answers; natively the same scenario is realised
// with real arguments, files and pipes and run() is executed for real.

type verifScenario struct {
	nargs       int  // number of positional arguments (0, 1, 2)
	inputFlag   bool // -input given
	readFails   bool // reading the input fails
	fileKind    int  // content of the -input file: 0 valid JSON, 1 invalid, 2 a JSON value followed by garbage, 3 empty
	stdinKind   int  // content of standard input: 0 valid JSON, 1 invalid
	parseFails  bool // expression does not parse
	syntaxErr   bool // ... with a SyntaxError (else another error)
	searchFails bool // evaluation error
}

var (
	verifSc      verifScenario
	verifOut     []string // lines printed on stdout
	verifErrN    int      // writes to stderr
	verifDocFile  interface{}
	verifDocStdin interface{}
	verifSearched interface{}
	verifFakeFile os.File
	verifDecFile  bool
	verifSearchRes  interface{}
	verifAstFlag = false
	verifInput   = ""
)

// ---- environment stubs (the executor redirects the real functions here) ----
func verifFlagBool(name string, value bool, usage string) *bool { return &verifAstFlag }
func verifFlagString(name string, value string, usage string) *string {
	verifInput = ""
	if verifSc.inputFlag {
		verifInput = "input.json"
	}
	return &verifInput
}
func verifFlagParse() {}
func verifFlagArgs() []string {
	out := []string{}
	for i := 0; i < verifSc.nargs; i++ {
		out = append(out, "EXPR")
	}
	return out
}
func verifFlagPrintDefaults() {}
func verifFlagNArg() int       { return verifSc.nargs }
func verifFlagArg(i int) string {
	if i >= 0 && i < verifSc.nargs {
		return "EXPR"
	}
	return ""
}

// writes through *os.File: os.Stdout is the only non-nil-distinguishable
// target the adapter prints results to; os.Stderr and os.Stdout are both nil
// in the stub environment, so a direct Write is attributed by content:
// anything carrying the serialised result is standard output.
func verifFileWrite(f *os.File, b []byte) (int, error) {
	verifOut = append(verifOut, string(b))
	return len(b), nil
}
func verifFileWriteString(f *os.File, s string) (int, error) {
	verifOut = append(verifOut, s)
	return len(s), nil
}
func verifIoWriteString(w io.Writer, s string) (int, error) {
	verifOut = append(verifOut, s)
	return len(s), nil
}
func verifFprint(w io.Writer, a ...interface{}) (int, error) {
	verifErrN++
	return 0, nil
}
func verifPrint(a ...interface{}) (int, error) { return verifPrintln(a...) }
func verifFprintf(w io.Writer, format string, a ...interface{}) (int, error) {
	verifErrN++
	return 0, nil
}
func verifFprintln(w io.Writer, a ...interface{}) (int, error) {
	verifErrN++
	return 0, nil
}
func verifPrintln(a ...interface{}) (int, error) {
	s := "?"
	if len(a) == 1 {
		if x, ok := a[0].(string); ok {
			s = x
		}
	}
	verifOut = append(verifOut, s)
	return 0, nil
}
func verifPrintf(format string, a ...interface{}) (int, error) {
	verifOut = append(verifOut, "?")
	return 0, nil
}
func verifReadFile(name string) ([]byte, error) {
	if verifSc.readFails {
		return nil, errors.New("read error")
	}
	if verifSc.fileKind == 3 {
		return []byte{}, nil
	}
	return []byte{'F', byte('0' + verifSc.fileKind)}, nil
}
func verifReadAll(r io.Reader) ([]byte, error) {
	if f, ok := r.(*os.File); ok && f == &verifFakeFile {
		return verifReadFile("")
	}
	return []byte{'S', byte('0' + verifSc.stdinKind)}, nil
}
func verifOsOpen(name string) (*os.File, error) {
	if verifSc.readFails {
		return nil, errors.New("open error")
	}
	return &verifFakeFile, nil
}
func verifFileClose(f *os.File) error { return nil }
func verifNewDecoder(r io.Reader) *json.Decoder {
	f, ok := r.(*os.File)
	verifDecFile = ok && f == &verifFakeFile
	return nil
}
func verifBufioNewReader(r io.Reader) *bufio.Reader { return nil }

// verifStore: the decoded document of the source the bytes came from.
func verifStore(v interface{}, fromFile bool) error {
	p, ok := v.(*interface{})
	if !ok {
		return errors.New("unexpected target")
	}
	if fromFile {
		*p = verifDocFile
	} else {
		*p = verifDocStdin
	}
	return nil
}
func verifDecode(d *json.Decoder, v interface{}) error {
	// a Decoder reads one value and does not look at what follows it
	if verifDecFile {
		if verifSc.fileKind == 1 || verifSc.fileKind == 3 {
			return errors.New("invalid json")
		}
		return verifStore(v, true)
	}
	if verifSc.stdinKind == 1 {
		return errors.New("invalid json")
	}
	return verifStore(v, false)
}
func verifUnmarshal(data []byte, v interface{}) error {
	if len(data) != 2 || data[1] != '0' {
		return errors.New("invalid json")
	}
	return verifStore(v, data[0] == 'F')
}
func verifParserParse(p *jmespath.Parser, expression string) (jmespath.ASTNode, error) {
	if verifSc.parseFails {
		if verifSc.syntaxErr {
			return jmespath.ASTNode{}, jmespath.SyntaxError{Expression: expression, Offset: 1}
		}
		return jmespath.ASTNode{}, errors.New("not an integer")
	}
	return jmespath.ASTNode{}, nil
}
func verifLibSearch(expression string, data interface{}) (interface{}, error) {
	verifSearched = data
	if verifSc.searchFails {
		return nil, errors.New("evaluation error")
	}
	return verifSearchRes, nil
}

// ---- native realisation of a scenario ----
func verifRunNative(sc verifScenario) (code int, stdout string, want string) {
	expr := "a.b"
	if sc.parseFails && sc.syntaxErr {
		expr = "a["
	} else if sc.parseFails {
		expr = "[-]"
	} else if sc.searchFails {
		expr = "abs('x')"
	}
	fileText := `{"a":{"b":[1,"100% done %s %d %%","x\ny <&> \u00e9",null,{"c":1.5,"%v":"%"}]}}`
	switch sc.fileKind {
	case 1:
		fileText = "{"
	case 2:
		fileText = `{"a":{"b":[1,2]}} trailing`
	case 3:
		fileText = ""
	}
	stdinText := `{"a":{"b":["from standard input: 50% %d %s %%", {"%v": 1}]}}`
	if sc.stdinKind == 1 {
		stdinText = "{"
	}
	input := stdinText
	inputOK := sc.stdinKind == 0
	if sc.inputFlag {
		input = fileText
		inputOK = sc.fileKind == 0
	}
	dir, _ := ioutil.TempDir("", "jpgo-verif")
	defer os.RemoveAll(dir)
	args := []string{"jpgo"}
	oldIn := os.Stdin
	if sc.inputFlag {
		path := dir + "/in.json"
		if sc.readFails {
			path = dir + "/missing.json"
		} else {
			ioutil.WriteFile(path, []byte(fileText), 0644)
		}
		args = append(args, "-input", path)
	}
	ioutil.WriteFile(dir+"/stdin", []byte(stdinText), 0644)
	stdinF, _ := os.Open(dir + "/stdin")
	os.Stdin = stdinF
	defer stdinF.Close()
	for i := 0; i < sc.nargs; i++ {
		args = append(args, expr)
	}
	oldArgs, oldOut, oldErr := os.Args, os.Stdout, os.Stderr
	os.Args = args
	flag.CommandLine = flag.NewFlagSet(args[0], flag.ContinueOnError)
	flag.CommandLine.SetOutput(ioutil.Discard)
	outF, _ := os.Create(dir + "/out")
	errF, _ := os.Create(dir + "/err")
	os.Stdout, os.Stderr = outF, errF
	code = run()
	os.Stdout, os.Stderr, os.Args, os.Stdin = oldOut, oldErr, oldArgs, oldIn
	outF.Close()
	errF.Close()
	b, _ := ioutil.ReadFile(dir + "/out")
	var data interface{}
	if inputOK && json.Unmarshal([]byte(input), &data) == nil {
		if r, err := jmespath.Search(expr, data); err == nil {
			var buf bytes.Buffer
			j, _ := json.MarshalIndent(r, "", "  ")
			buf.Write(j)
			buf.WriteString("\n")
			want = buf.String()
		}
	}
	return code, string(b), want
}

func VerifRun() {
	sc := verifScenario{nargs: verifChoose(3), inputFlag: verifNondetBool(), readFails: verifNondetBool(), fileKind: verifChoose(4), stdinKind: verifChoose(2),
		parseFails: verifNondetBool(), syntaxErr: verifNondetBool(), searchFails: verifNondetBool()}
	// only a named file can fail to be read in the native realisation
	verifAssume(!sc.readFails || sc.inputFlag)
	verifAssume(!sc.syntaxErr || sc.parseFails)
	verifAssume(sc.inputFlag || sc.fileKind == 0) // no file: its content is irrelevant
	// an expression has one fate
	verifAssume(!(sc.parseFails && sc.searchFails))
	inputValid := sc.stdinKind == 0
	if sc.inputFlag {
		inputValid = sc.fileKind == 0
	}
	expectOK := sc.nargs == 1 && !sc.readFails && inputValid && !sc.parseFails && !sc.searchFails
	verifNote("ok", expectOK)
	if verifNative() {
		code, out, want := verifRunNative(sc)
		verifNote("code0", code == 0)
		verifAssert((code == 0) == expectOK, "C19:exit-status")
		if expectOK {
			// any JSON serialisation of exactly the library's value, and nothing else
			var printed, expected interface{}
			okp := json.Unmarshal([]byte(out), &printed) == nil
			json.Unmarshal([]byte(want), &expected)
			verifAssert(okp && reflect.DeepEqual(printed, expected), "C19:stdout-is-the-library-result")
		} else {
			verifAssert(out == "", "C19:no-result-on-stdout-on-failure")
		}
		return
	}
	verifSc = sc
	verifOut, verifErrN = nil, 0
	verifDocFile = verifNondetJSON(1)
	verifDocStdin = verifNondetJSON(1)
	verifSearchRes = verifNondetJSON(1)
	verifSearched = nil
	code := run()
	verifNote("code0", code == 0)
	marshalFailed := code != 0 && expectOK && len(verifOut) == 0
	if marshalFailed {
		return // json.MarshalIndent failing on a JSON value is outside the scenario space
	}
	verifAssert((code == 0) == expectOK, "C19:exit-status")
	if expectOK {
		wantDoc := verifDocStdin
		if sc.inputFlag {
			wantDoc = verifDocFile
		}
		verifAssert(verifSameNode(verifSearched, wantDoc), "C19:searched-the-given-input")
		verifAssert(len(verifOut) == 1, "C19:stdout-is-the-library-result")
		if len(verifOut) == 1 {
			verifAssert(verifMarshalOf(verifOut[0], verifSearchRes), "C19:stdout-is-the-library-result")
		}
	} else {
		verifAssert(len(verifOut) == 0, "C19:no-result-on-stdout-on-failure")
	}
}
