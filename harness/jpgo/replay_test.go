//go:build verifnative

package main

import (
	"encoding/json"
	"fmt"
	"io/ioutil"
	"os"
	"runtime"
	"strings"
	"testing"
	"time"
)

type verifCase struct {
	ID     string            `json:"id"`
	Entry  string            `json:"entry"`
	Params map[string]string `json:"params"`
	Tape   []string          `json:"tape"`
}

type verifResult struct {
	ID       string   `json:"id"`
	Outcome  string   `json:"outcome"` // ok, assert, panic, timeout, tape-mismatch, assume-fail, no-entry
	Detail   string   `json:"detail"`
	Func     string   `json:"func"`
	Notes    []string `json:"notes"`
	Abstract bool     `json:"abstract"`
}

func verifSUTFrame() string {
	pcs := make([]uintptr, 64)
	n := runtime.Callers(3, pcs)
	frames := runtime.CallersFrames(pcs[:n])
	for {
		f, more := frames.Next()
		if strings.Contains(f.Function, "go-jmespath") && !strings.Contains(f.File, "zz_verif") {
			name := f.Function
			name = strings.Replace(name, "github.com/jmespath/go-jmespath/cmd/jpgo.", "jpgo.", 1)
			name = strings.Replace(name, "github.com/jmespath/go-jmespath.", "", 1)
			return name
		}
		if !more {
			break
		}
	}
	return ""
}

func verifRunCase(c verifCase) (res verifResult) {
	res.ID = c.ID
	fn, ok := verifEntries[c.Entry]
	if !ok {
		res.Outcome = "no-entry"
		return
	}
	done := make(chan verifResult, 1)
	go func() {
		r := verifResult{ID: c.ID, Outcome: "ok"}
		defer func() {
			if p := recover(); p != nil {
				switch p := p.(type) {
				case verifAssertFail:
					r.Outcome, r.Detail = "assert", p.id
				case verifAssumeFail:
					r.Outcome = "assume-fail"
				case verifTapeMismatch:
					r.Outcome, r.Detail = "tape-mismatch", p.msg
				default:
					r.Outcome, r.Detail = "panic", fmt.Sprint(p)
					r.Func = verifSUTFrame()
				}
			}
			r.Notes = verifNotes
			r.Abstract = verifAbstractUsed
			done <- r
		}()
		verifTape, verifTapePos, verifParams = c.Tape, 0, c.Params
		verifNotes, verifAbstractUsed = nil, false
		fn()
	}()
	select {
	case r := <-done:
		return r
	case <-time.After(10 * time.Second):
		res.Outcome = "timeout"
		return
	}
}

func TestVerifReplay(t *testing.T) {
	path := os.Getenv("VERIF_CASES")
	if path == "" {
		t.Skip("no VERIF_CASES")
	}
	data, err := ioutil.ReadFile(path)
	if err != nil {
		t.Fatal(err)
	}
	var cases []verifCase
	if err := json.Unmarshal(data, &cases); err != nil {
		t.Fatal(err)
	}
	out, err := os.Create(os.Getenv("VERIF_RESULTS"))
	if err != nil {
		t.Fatal(err)
	}
	defer out.Close()
	for _, c := range cases {
		r := verifRunCase(c)
		b, _ := json.Marshal(r)
		fmt.Fprintf(out, "%s\n", b)
		if r.Outcome == "timeout" {
			// the goroutine is still running and owns the globals: stop here
			fmt.Fprintf(out, "{\"id\":\"*\",\"outcome\":\"aborted-after-timeout\"}\n")
			break
		}
	}
}
