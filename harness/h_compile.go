//go:build verif || verifnative

package jmespath

// H-COMPILE(N): the public Compile / MustCompile on N arbitrary bytes.
func VerifCompile() {
	n := verifParam("N")
	src := verifNondetBytes(n)
	if verifHasParam("pre") {
		// a symbolic middle between concrete text: reaches inside strings,
		// brackets and calls at the cost of the symbolic bytes only
		src = verifParamStr("pre") + src + verifParamStr("post")
		n = len(src)
	}
	jp, err := Compile(src)
	verifNote("err", err != nil)
	verifAssert((jp != nil) == (err == nil), "C17:exactly-one-of-result-and-error")
	if verifHasParam("grammar") {
		// byte-level language check: reference lexer + grammar circuit
		types, lexOK, unspec := verifRefLex(src)
		if !unspec {
			want := lexOK && verifGrammarAccepts(types)
			verifAssert(want == (err == nil), "C04:compile-accepts-iff-grammatical")
		}
	}
	if err == nil && jp != nil {
		verifAssert(verifASTWellFormed(jp.ast, false), "C04,C17:compiled-expression-not-usable")
		verifAssert(jp.intr != nil, "C17:compiled-expression-not-usable")
	}
	if err != nil {
		if se, ok := err.(SyntaxError); ok {
			verifNote("offset", se.Offset)
			verifAssert(se.Expression == src, "C17:syntax-error-carries-expression")
			verifAssert(verifAnd(se.Offset >= 0, se.Offset <= n), "C17:syntax-error-offset-in-range")
			if se.Offset >= 0 && se.Offset <= n {
				want := src + "\n"
				for i := 0; i < se.Offset; i++ {
					want += " "
				}
				want += "^"
				verifAssert(se.HighlightLocation() == want, "C17:caret-rendering")
			}
		}
	}
	var mj *JMESPath
	panicked, msg := verifCatch(func() { mj = MustCompile(src) })
	verifAssert(panicked == (err != nil), "C17:mustcompile-panics-iff-compile-fails")
	if panicked {
		verifAssert(verifMentions(msg, src), "C17:mustcompile-names-expression")
	} else {
		verifAssert(mj != nil, "C17:mustcompile-returns-expression")
	}
}

// VerifSearchBytes: Search on an expression with symbolic bytes between
// concrete text (arbitrary bytes, including invalid UTF-8, reach string
// functions through raw strings); only "no panic" is claimed.
func VerifSearchBytes() {
	n := verifParam("N")
	src := verifParamStr("pre") + verifNondetBytes(n) + verifParamStr("post")
	doc := verifNondetJSON(1)
	_, err := Search(src, doc)
	verifNote("err", err != nil)
}
