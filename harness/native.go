//go:build verifnative

package jmespath

import (
	"encoding/hex"
	"encoding/json"
	"fmt"
	"math"
	"reflect"
	"sort"
	"strconv"
	"strings"
)

// Native bodies of the harness intrinsics: nondeterministic inputs come from
// a tape produced by the solver's model.


var (
	verifTape    []string
	verifTapePos int
	verifParams  map[string]string
	verifNotes   []string
	verifDocs    []interface{}
	verifSnaps   []string
)

func verifNext(kind string) string {
	if verifTapePos >= len(verifTape) {
		panic(verifTapeMismatch{"tape exhausted, wanted " + kind})
	}
	e := verifTape[verifTapePos]
	verifTapePos++
	if !strings.HasPrefix(e, kind+":") {
		panic(verifTapeMismatch{"tape has " + e + ", wanted " + kind})
	}
	return e[len(kind)+1:]
}

func verifNondetInt() int {
	s := verifNext("int")
	if n, err := strconv.ParseInt(s, 10, 64); err == nil {
		return int(n)
	}
	u, _ := strconv.ParseUint(s, 10, 64)
	return int(u)
}
func verifNondetBool() bool { return verifNext("bool") == "true" }
func verifNondetByte() byte {
	n, _ := strconv.ParseUint(verifNext("int"), 10, 8)
	return byte(n)
}
func verifNondetFloat64() float64 {
	u, _ := strconv.ParseUint(verifNext("float"), 16, 64)
	return math.Float64frombits(u)
}

// spare gives every array of a replayed document one unused slot of
// capacity holding a sentinel, as the symbolic documents have.
func verifSpare(v interface{}) interface{} {
	switch v := v.(type) {
	case []interface{}:
		out := make([]interface{}, len(v), len(v)+1)
		for i := range v {
			out[i] = verifSpare(v[i])
		}
		out[:len(v)+1][len(v)] = "\x00spare"
		return out
	case map[string]interface{}:
		for k := range v {
			v[k] = verifSpare(v[k])
		}
		return v
	}
	return v
}
func verifNondetJSON(depth int) interface{} {
	var v interface{}
	if err := json.Unmarshal([]byte(verifNext("json")), &v); err != nil {
		panic(verifTapeMismatch{"bad json on tape: " + err.Error()})
	}
	v = verifSpare(v)
	verifDocs = append(verifDocs, v)
	return v
}
func verifNondetString(maxLen int) string {
	b, _ := hex.DecodeString(verifNext("str"))
	return string(b)
}
func verifNondetBytes(n int) string {
	b, _ := hex.DecodeString(verifNext("str"))
	return string(b)
}
func verifChoose(n int) int {
	k, _ := strconv.Atoi(verifNext("int"))
	return k
}
func verifParam(name string) int {
	n, err := strconv.Atoi(verifParams[name])
	if err != nil {
		panic("missing int param " + name)
	}
	return n
}
func verifParamStr(name string) string {
	s, ok := verifParams[name]
	if !ok {
		panic("missing param " + name)
	}
	return s
}
func verifHasParam(name string) bool { _, ok := verifParams[name]; return ok }
func verifAssume(c bool) {
	if !c {
		panic(verifAssumeFail{})
	}
}
// verifActive mirrors the executor's filter: which assertion ids belong to
// the property being checked.
func verifActive(id string) bool {
	ps, ok := verifParams["__props"]
	if !ok || strings.HasPrefix(id, "MODEL:") {
		return true
	}
	if id == "frame-write" {
		return verifParams["__frame"] == "1"
	}
	for _, p := range strings.Split(ps, ",") {
		if p == "*" || strings.HasPrefix(id, p) {
			return true
		}
		if i := strings.Index(id, ":"); i > 0 {
			for _, q := range strings.Split(id[:i], ",") {
				if q == p {
					return true
				}
			}
		}
	}
	return false
}
func verifAssert(c bool, id string) {
	if !c && verifActive(id) {
		panic(verifAssertFail{id})
	}
}
func verifUnreachable(id string) {
	if verifActive(id) {
		panic(verifAssertFail{id})
	}
}

// snapshot of a document including the spare slot of every array
var verifDepth int

func verifSnap(v interface{}) string {
	verifDepth++
	defer func() { verifDepth-- }()
	if verifDepth > 64 {
		return "<cycle>" // only a modified document can be cyclic
	}
	switch v := v.(type) {
	case []interface{}:
		parts := []string{}
		for _, e := range v[:cap(v)] {
			parts = append(parts, verifSnap(e))
		}
		return "[" + strings.Join(parts, ",") + "]"
	case map[string]interface{}:
		ks := []string{}
		for k := range v {
			ks = append(ks, k)
		}
		sort.Strings(ks)
		parts := []string{}
		for _, k := range ks {
			parts = append(parts, strconv.Quote(k)+":"+verifSnap(v[k]))
		}
		return "{" + strings.Join(parts, ",") + "}"
	}
	return verifRender(v)
}
func verifFreeze() {
	verifSnaps = nil
	for _, d := range verifDocs {
		verifSnaps = append(verifSnaps, verifSnap(d))
	}
}
func verifThaw() {
	if verifParams["__frame"] != "1" {
		return
	}
	for i, d := range verifDocs {
		if i < len(verifSnaps) && verifSnaps[i] != verifSnap(d) {
			panic(verifAssertFail{"frame-write"})
		}
	}
}
func verifNote(tag string, v interface{}) { verifNotes = append(verifNotes, tag+"="+verifRender(v)) }
func verifAnd(a, b bool) bool           { return a && b }
func verifOr(a, b bool) bool            { return a || b }
func verifIteInt(c bool, a, b int) int {
	if c {
		return a
	}
	return b
}
func verifIsLazy(v interface{}) bool      { return false }
func verifSameNode(a, b interface{}) bool { return false }
func verifNative() bool                  { return true }
func verifIsOpaque(s string) bool        { return false }
func verifMentions(msg, s string) bool   { return strings.Contains(msg, strconv.Quote(s)) }
// verifMarshalOf: s is JSON text that decodes back to v.
func verifMarshalOf(s string, v interface{}) bool {
	var out interface{}
	if err := json.Unmarshal([]byte(s), &out); err != nil {
		return false
	}
	return reflect.DeepEqual(out, v)
}
func verifCatch(f func()) (panicked bool, msg string) {
	defer func() {
		if r := recover(); r != nil {
			switch r.(type) {
			case verifAssertFail, verifAssumeFail, verifTapeMismatch:
				panic(r)
			}
			panicked = true
			msg = fmt.Sprint(r)
		}
	}()
	f()
	return false, ""
}

// verifDeepEqual: JSON deep equality as reflect.DeepEqual sees it.
func verifDeepEqual(a, b interface{}) bool { return reflect.DeepEqual(a, b) }

// verifRender: canonical text, the same format the engine renders under a model.
func verifRender(v interface{}) string {
	verifDepth++
	defer func() { verifDepth-- }()
	if verifDepth > 64 {
		return "<cycle>"
	}
	switch v := v.(type) {
	case nil:
		return "null"
	case bool:
		return strconv.FormatBool(v)
	case int:
		return strconv.Itoa(v)
	case float64:
		return "f" + strconv.FormatUint(math.Float64bits(v), 16)
	case string:
		return fmt.Sprintf("%q", v)
	case error:
		return "error"
	case []interface{}:
		parts := []string{}
		for _, e := range v {
			parts = append(parts, verifRender(e))
		}
		return "[" + strings.Join(parts, ",") + "]"
	case map[string]interface{}:
		parts := []string{}
		for k, e := range v {
			parts = append(parts, verifRender(k)+":"+verifRender(e))
		}
		sort.Strings(parts)
		return "{" + strings.Join(parts, ",") + "}"
	case tokType:
		return strconv.Itoa(int(v))
	case astNodeType:
		return strconv.Itoa(int(v))
	}
	rv := reflect.ValueOf(v)
	switch rv.Kind() {
	case reflect.Int, reflect.Int64, reflect.Int32, reflect.Int8, reflect.Int16:
		return strconv.FormatInt(rv.Int(), 10)
	case reflect.Uint8, reflect.Uint, reflect.Uint64, reflect.Uint32:
		return strconv.FormatUint(rv.Uint(), 10)
	}
	return fmt.Sprintf("<%T>", v)
}

// verifAbstractFloat: value the model does not compute (decimal conversion).
var verifAbstractUsed bool

func verifAbstractFloat() float64 { verifAbstractUsed = true; return math.NaN() }

func verifGrammarAccepts(types []tokType) bool { return verifGrammarAcceptsNative(types) }

func verifFinite(x float64) bool { return !math.IsNaN(x) && !math.IsInf(x, 0) }

// verifFingerprint: a deep rendering of a value including unexported fields
// (pointers followed, cycles cut), used natively to observe writes to a
// compiled expression and its interpreter during Search.
func verifFingerprint(v interface{}) string {
	var sb strings.Builder
	seen := map[uintptr]bool{}
	var walk func(rv reflect.Value, depth int)
	walk = func(rv reflect.Value, depth int) {
		if depth > 12 {
			sb.WriteString("...")
			return
		}
		switch rv.Kind() {
		case reflect.Invalid:
			sb.WriteString("nil")
		case reflect.Ptr:
			if rv.IsNil() {
				sb.WriteString("nil")
				return
			}
			if seen[rv.Pointer()] {
				sb.WriteString("^")
				return
			}
			seen[rv.Pointer()] = true
			sb.WriteString("&")
			walk(rv.Elem(), depth+1)
		case reflect.Interface:
			if rv.IsNil() {
				sb.WriteString("nil")
				return
			}
			walk(rv.Elem(), depth+1)
		case reflect.Struct:
			sb.WriteString("{")
			for i := 0; i < rv.NumField(); i++ {
				sb.WriteString(rv.Type().Field(i).Name + ":")
				walk(rv.Field(i), depth+1)
				sb.WriteString(" ")
			}
			sb.WriteString("}")
		case reflect.Slice, reflect.Array:
			if rv.Kind() == reflect.Slice && rv.IsNil() {
				sb.WriteString("nil[]")
				return
			}
			sb.WriteString("[")
			n := rv.Len()
			if rv.Kind() == reflect.Slice {
				n = rv.Cap()
				rv = rv.Slice(0, n)
				sb.WriteString(strconv.Itoa(rv.Len()) + "/" + strconv.Itoa(n) + ":")
			}
			for i := 0; i < n; i++ {
				walk(rv.Index(i), depth+1)
				sb.WriteString(",")
			}
			sb.WriteString("]")
		case reflect.Map:
			keys := rv.MapKeys()
			parts := []string{}
			for _, k := range keys {
				var sub strings.Builder
				old := sb
				sb = sub
				walk(k, depth+1)
				sb.WriteString("=>")
				walk(rv.MapIndex(k), depth+1)
				parts = append(parts, sb.String())
				sb = old
			}
			sort.Strings(parts)
			sb.WriteString("map{" + strings.Join(parts, ";") + "}")
		case reflect.String:
			sb.WriteString(strconv.Quote(rv.String()))
		case reflect.Bool:
			sb.WriteString(strconv.FormatBool(rv.Bool()))
		case reflect.Int, reflect.Int8, reflect.Int16, reflect.Int32, reflect.Int64:
			sb.WriteString(strconv.FormatInt(rv.Int(), 10))
		case reflect.Uint, reflect.Uint8, reflect.Uint16, reflect.Uint32, reflect.Uint64, reflect.Uintptr:
			sb.WriteString(strconv.FormatUint(rv.Uint(), 10))
		case reflect.Float32, reflect.Float64:
			sb.WriteString(strconv.FormatUint(math.Float64bits(rv.Float()), 16))
		case reflect.Func:
			if rv.IsNil() {
				sb.WriteString("nilfunc")
			} else {
				sb.WriteString("func@" + strconv.FormatUint(uint64(rv.Pointer()), 16))
			}
		default:
			sb.WriteString("?" + rv.Kind().String())
		}
	}
	walk(reflect.ValueOf(v), 0)
	return sb.String()
}
