//go:build verif || verifnative

package jmespath

import "unicode/utf8"

// verifRefLex: reference lexer written from the lexical rules of the JMESPath
// grammar (and the property's reading of raw strings: only \' is an escape).
// ok=false: the text is not a sequence of tokens. unspec=true: the text
// contains something the specification does not settle (invalid UTF-8, a
// control character inside a raw string); nothing is asserted then.
func verifRefLex(src string) (types []tokType, ok bool, unspec bool) {
	n := len(src)
	if !utf8.ValidString(src) {
		return nil, false, true
	}
	i := 0
	emit := func(t tokType) { types = append(types, t) }
	for i < n {
		c := src[i]
		switch {
		case c == ' ' || c == '\t' || c == '\n' || c == '\r':
			i++
		case (c >= 'A' && c <= 'Z') || (c >= 'a' && c <= 'z') || c == '_':
			j := i + 1
			for j < n && ((src[j] >= 'A' && src[j] <= 'Z') || (src[j] >= 'a' && src[j] <= 'z') || src[j] == '_' || (src[j] >= '0' && src[j] <= '9')) {
				j++
			}
			emit(tUnquotedIdentifier)
			i = j
		case c == '-' || (c >= '0' && c <= '9'):
			j := i + 1
			for j < n && src[j] >= '0' && src[j] <= '9' {
				j++
			}
			if c == '-' && j == i+1 {
				return nil, false, false // a lone minus is not a number
			}
			emit(tNumber)
			i = j
		case c == '.':
			emit(tDot)
			i++
		case c == '*':
			emit(tStar)
			i++
		case c == ',':
			emit(tComma)
			i++
		case c == ':':
			emit(tColon)
			i++
		case c == '{':
			emit(tLbrace)
			i++
		case c == '}':
			emit(tRbrace)
			i++
		case c == ']':
			emit(tRbracket)
			i++
		case c == '(':
			emit(tLparen)
			i++
		case c == ')':
			emit(tRparen)
			i++
		case c == '@':
			emit(tCurrent)
			i++
		case c == '[':
			if i+1 < n && src[i+1] == '?' {
				emit(tFilter)
				i += 2
			} else if i+1 < n && src[i+1] == ']' {
				emit(tFlatten)
				i += 2
			} else {
				emit(tLbracket)
				i++
			}
		case c == '|':
			if i+1 < n && src[i+1] == '|' {
				emit(tOr)
				i += 2
			} else {
				emit(tPipe)
				i++
			}
		case c == '&':
			if i+1 < n && src[i+1] == '&' {
				emit(tAnd)
				i += 2
			} else {
				emit(tExpref)
				i++
			}
		case c == '<':
			if i+1 < n && src[i+1] == '=' {
				emit(tLTE)
				i += 2
			} else {
				emit(tLT)
				i++
			}
		case c == '>':
			if i+1 < n && src[i+1] == '=' {
				emit(tGTE)
				i += 2
			} else {
				emit(tGT)
				i++
			}
		case c == '!':
			if i+1 < n && src[i+1] == '=' {
				emit(tNE)
				i += 2
			} else {
				emit(tNot)
				i++
			}
		case c == '=':
			if i+1 < n && src[i+1] == '=' {
				emit(tEQ)
				i += 2
			} else {
				return nil, false, false
			}
		case c == '"':
			j := i + 1
			for j < n && src[j] != '"' {
				if src[j] == '\\' && j+1 < n {
					j++
				}
				j++
			}
			if j >= n {
				return nil, false, false
			}
			if _, good := verifModelJSONString(src[i : j+1]); !good {
				return nil, false, false
			}
			emit(tQuotedIdentifier)
			i = j + 1
		case c == '\'':
			j := i + 1
			for j < n && src[j] != '\'' {
				if src[j] < 0x20 {
					unspec = true
				}
				if src[j] == '\\' && j+1 < n && src[j+1] == '\'' {
					j++
				}
				j++
			}
			if j >= n {
				return nil, false, unspec
			}
			emit(tStringLiteral)
			i = j + 1
		case c == '`':
			j := i + 1
			text := ""
			for j < n && src[j] != '`' {
				if src[j] == '\\' && j+1 < n {
					if src[j+1] == '`' {
						text += "`"
					} else {
						text += src[j : j+2]
					}
					j += 2
					continue
				}
				text += src[j : j+1]
				j++
			}
			if j >= n {
				return nil, false, false
			}
			if _, good := verifModelJSONValue(text); !good {
				return nil, false, false
			}
			emit(tJSONLiteral)
			i = j + 1
		default:
			return nil, false, false
		}
	}
	return types, true, unspec
}
