//go:build verif || verifnative

package jmespath

import "strings"

// The JMESPath grammar over the token alphabet (one terminal per tokType),
// epsilon-free, written from the ABNF of the specification:
//
//	expression = sub-expression / index-expression / comparator-expression / or / and / not / paren /
//	             "*" / multi-select-list / multi-select-hash / literal / function-expression / pipe /
//	             raw-string / current-node / identifier
//
// Upper-case words are nonterminals, lower-case words are token types
// (t<Name> without the t). One production per line: LHS = symbols.
// Both the symbolic executor (as a CYK Boolean circuit over symbolic token
// types) and the native recogniser below read this same text.
const verifGrammarText = `
E = ID
E = Star
E = Current
E = JSONLiteral
E = StringLiteral
E = MSL
E = MSH
E = FUNC
E = BS
E = E BS
E = E Dot ID
E = E Dot MSL
E = E Dot MSH
E = E Dot FUNC
E = E Dot Star
E = E Pipe E
E = E Or E
E = E And E
E = E CMP E
E = Not E
E = Lparen E Rparen
CMP = LT
CMP = LTE
CMP = GT
CMP = GTE
CMP = EQ
CMP = NE
ID = UnquotedIdentifier
ID = QuotedIdentifier
MSL = Lbracket ELIST Rbracket
ELIST = E
ELIST = ELIST Comma E
MSH = Lbrace KVLIST Rbrace
KVLIST = KV
KVLIST = KVLIST Comma KV
KV = ID Colon E
BS = Lbracket Number Rbracket
BS = Lbracket Star Rbracket
BS = Lbracket SL Rbracket
BS = Flatten
BS = Filter E Rbracket
SL = Colon
SL = Number Colon
SL = Colon Number
SL = Number Colon Number
SL = Colon Colon
SL = Number Colon Colon
SL = Colon Number Colon
SL = Number Colon Number Colon
SL = Colon Colon Number
SL = Number Colon Colon Number
SL = Colon Number Colon Number
SL = Number Colon Number Colon Number
FUNC = UnquotedIdentifier Lparen Rparen
FUNC = UnquotedIdentifier Lparen ARGS Rparen
ARGS = ARG
ARGS = ARGS Comma ARG
ARG = E
ARG = Expref E
`

var verifTokNames = map[string]tokType{
	"Unknown": tUnknown, "Star": tStar, "Dot": tDot, "Filter": tFilter, "Flatten": tFlatten, "Lparen": tLparen,
	"Rparen": tRparen, "Lbracket": tLbracket, "Rbracket": tRbracket, "Lbrace": tLbrace, "Rbrace": tRbrace,
	"Or": tOr, "Pipe": tPipe, "Number": tNumber, "UnquotedIdentifier": tUnquotedIdentifier,
	"QuotedIdentifier": tQuotedIdentifier, "Comma": tComma, "Colon": tColon, "LT": tLT, "LTE": tLTE, "GT": tGT,
	"GTE": tGTE, "EQ": tEQ, "NE": tNE, "JSONLiteral": tJSONLiteral, "StringLiteral": tStringLiteral,
	"Current": tCurrent, "Expref": tExpref, "And": tAnd, "Not": tNot, "EOF": tEOF,
}

type verifProd struct {
	lhs string
	rhs []string
}

func verifParseGrammar() ([]verifProd, []string) {
	var prods []verifProd
	var order []string
	seen := map[string]bool{}
	for _, line := range strings.Split(verifGrammarText, "\n") {
		f := strings.Fields(line)
		if len(f) < 3 || f[1] != "=" {
			continue
		}
		prods = append(prods, verifProd{f[0], f[2:]})
		if !seen[f[0]] {
			seen[f[0]] = true
			order = append(order, f[0])
		}
	}
	return prods, order
}

// verifGrammarOrder: evaluation order of nonterminals within one span, such
// that unit productions (A = B) see B already computed for the same span.
var verifGrammarOrder = []string{"CMP", "ID", "SL", "KV", "KVLIST", "BS", "FUNC", "MSL", "MSH", "E", "ARG", "ARGS", "ELIST"}

// verifGrammarAccepts: native CYK-style recogniser (the executor builds the
// same recurrence as a Boolean circuit when the token types are symbolic).
func verifGrammarAcceptsNative(types []tokType) bool {
	prods, _ := verifParseGrammar()
	n := len(types)
	if n == 0 {
		return false
	}
	// N[A][i][j]: nonterminal A derives tokens i..j-1
	N := map[string][][]bool{}
	for _, a := range verifGrammarOrder {
		t := make([][]bool, n+1)
		for i := range t {
			t[i] = make([]bool, n+1)
		}
		N[a] = t
	}
	sym := func(s string, i, j int) bool {
		if t, ok := N[s]; ok {
			return t[i][j]
		}
		return j == i+1 && types[i] == verifTokNames[s]
	}
	for ln := 1; ln <= n; ln++ {
		for i := 0; i+ln <= n; i++ {
			j := i + ln
			for _, a := range verifGrammarOrder {
				res := false
				for _, p := range prods {
					if p.lhs != a || len(p.rhs) > ln {
						continue
					}
					// seq[m][t]: first m symbols derive i..t-1
					k := len(p.rhs)
					cur := make([]bool, n+1)
					cur[i] = true
					for m := 0; m < k; m++ {
						nxt := make([]bool, n+1)
						for t := i; t <= j; t++ {
							if !cur[t] {
								continue
							}
							for u := t + 1; u <= j; u++ {
								if u == j && m < k-1 {
									continue
								}
								if m == k-1 && u != j {
									continue
								}
								if sym(p.rhs[m], t, u) {
									nxt[u] = true
								}
							}
						}
						cur = nxt
					}
					if cur[j] {
						res = true
					}
				}
				N[a][i][j] = res
			}
		}
	}
	return N["E"][0][n]
}
