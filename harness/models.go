//go:build verif || verifnative

package jmespath

import (
	"errors"
	"unicode/utf8"
)

// Go models of standard-library functions that cannot be interpreted from
// their source (unsafe / assembly). The symbolic executor calls these when an
// argument is symbolic; with concrete arguments it calls the real function.
// models_test.go validates each model against the real function natively.

// verifModelReplace models strings.Replace(s, old, new, -1) for non-empty old.
func verifModelReplace(s, old, nw string, n int) string {
	if len(old) == 0 || n >= 0 {
		verifUnreachable("MODEL:replace-unsupported-arguments")
	}
	out := ""
	i := 0
	for i < len(s) {
		if i+len(old) <= len(s) && s[i:i+len(old)] == old {
			out += nw
			i += len(old)
		} else {
			out += s[i : i+1]
			i++
		}
	}
	return out
}

// verifModelAtoi models strconv.Atoi for strings of at most 18 characters
// (no overflow possible); longer strings are outside the model.
func verifModelAtoi(s string) (int, error) {
	if len(s) == 0 || len(s) > 18 {
		if len(s) > 18 {
			verifUnreachable("MODEL:atoi-long-string")
		}
		return 0, errors.New("atoi: syntax")
	}
	i := 0
	neg := false
	if s[0] == '-' || s[0] == '+' {
		neg = s[0] == '-'
		i = 1
		if len(s) == 1 {
			return 0, errors.New("atoi: syntax")
		}
	}
	n := 0
	for ; i < len(s); i++ {
		c := s[i]
		if c < '0' || c > '9' {
			return 0, errors.New("atoi: syntax")
		}
		n = n*10 + int(c-'0')
	}
	if neg {
		n = -n
	}
	return n, nil
}

func verifHex(c byte) (int, bool) {
	switch {
	case c >= '0' && c <= '9':
		return int(c - '0'), true
	case c >= 'a' && c <= 'f':
		return int(c-'a') + 10, true
	case c >= 'A' && c <= 'F':
		return int(c-'A') + 10, true
	}
	return 0, false
}

func verifU4(s string, i int) (rune, bool) {
	if i+4 > len(s) {
		return 0, false
	}
	var r rune
	for k := 0; k < 4; k++ {
		h, ok := verifHex(s[i+k])
		if !ok {
			return 0, false
		}
		r = r*16 + rune(h)
	}
	return r, true
}

// verifJSONStringAt parses a JSON string starting at s[i] == '"'; returns the
// decoded value, the index after the closing quote and ok.
func verifJSONStringAt(s string, i int) (string, int, bool) {
	if i >= len(s) || s[i] != '"' {
		return "", i, false
	}
	i++
	out := ""
	for i < len(s) {
		c := s[i]
		switch {
		case c == '"':
			return out, i + 1, true
		case c == '\\':
			i++
			if i >= len(s) {
				return "", i, false
			}
			switch s[i] {
			case '"', '\\', '/':
				out += s[i : i+1]
				i++
			case 'b':
				out += "\b"
				i++
			case 'f':
				out += "\f"
				i++
			case 'n':
				out += "\n"
				i++
			case 'r':
				out += "\r"
				i++
			case 't':
				out += "\t"
				i++
			case 'u':
				r, ok := verifU4(s, i+1)
				if !ok {
					return "", i, false
				}
				i += 5
				if r >= 0xD800 && r < 0xE000 {
					// surrogate: valid pair combines, anything else is U+FFFD
					if r < 0xDC00 && i+1 < len(s) && s[i] == '\\' && s[i+1] == 'u' {
						r2, ok2 := verifU4(s, i+2)
						if ok2 && r2 >= 0xDC00 && r2 < 0xE000 {
							r = 0x10000 + (r-0xD800)<<10 + (r2 - 0xDC00)
							i += 6
						} else {
							r = 0xFFFD
						}
					} else {
						r = 0xFFFD
					}
				}
				out += string(r)
			default:
				return "", i, false
			}
		case c < 0x20:
			return "", i, false
		case c < 0x80:
			out += s[i : i+1]
			i++
		default:
			r, size := utf8.DecodeRuneInString(s[i:])
			if r == utf8.RuneError && size == 1 {
				out += "\uFFFD"
			} else {
				out += s[i : i+size]
			}
			i += size
		}
	}
	return "", i, false
}

func verifSkipWS(s string, i int) int {
	for i < len(s) && (s[i] == ' ' || s[i] == '\t' || s[i] == '\n' || s[i] == '\r') {
		i++
	}
	return i
}

// verifModelJSONString models json.Unmarshal(b, &string): ok iff b is one
// JSON string (surrounding whitespace allowed).
func verifModelJSONString(s string) (string, bool) {
	i := verifSkipWS(s, 0)
	v, j, ok := verifJSONStringAt(s, i)
	if !ok {
		return "", false
	}
	j = verifSkipWS(s, j)
	if j != len(s) {
		return "", false
	}
	return v, true
}

// verifJSONNumberAt validates the JSON number grammar at s[i:]; the value is
// exact for integers of at most 3 digits, otherwise an unconstrained finite
// double (the decimal-to-binary conversion is not modelled).
func verifJSONNumberAt(s string, i int) (float64, int, bool) {
	start := i
	neg := false
	if i < len(s) && s[i] == '-' {
		neg = true
		i++
	}
	if i >= len(s) {
		return 0, i, false
	}
	digits := 0
	n := 0
	simple := true
	switch {
	case s[i] == '0':
		i++
		digits = 1
	case s[i] >= '1' && s[i] <= '9':
		for i < len(s) && s[i] >= '0' && s[i] <= '9' {
			n = n*10 + int(s[i]-'0')
			digits++
			i++
		}
	default:
		return 0, i, false
	}
	if i < len(s) && s[i] == '.' {
		simple = false
		i++
		if i >= len(s) || s[i] < '0' || s[i] > '9' {
			return 0, i, false
		}
		for i < len(s) && s[i] >= '0' && s[i] <= '9' {
			i++
		}
	}
	if i < len(s) && (s[i] == 'e' || s[i] == 'E') {
		simple = false
		i++
		if i < len(s) && (s[i] == '+' || s[i] == '-') {
			i++
		}
		if i >= len(s) || s[i] < '0' || s[i] > '9' {
			return 0, i, false
		}
		ed := 0
		for i < len(s) && s[i] >= '0' && s[i] <= '9' {
			i++
			ed++
		}
		if ed > 2 {
			// may overflow float64 (an error in the real decoder): outside the model
			verifUnreachable("MODEL:json-number-exponent-too-long")
		}
	}
	_ = start
	if simple && digits <= 3 {
		f := float64(n)
		if neg {
			f = -f
		}
		return f, i, true
	}
	return verifAbstractFloat(), i, true
}

func verifJSONLit(s string, i int, lit string) bool {
	return i+len(lit) <= len(s) && s[i:i+len(lit)] == lit
}

func verifJSONValueAt(s string, i int, depth int) (interface{}, int, bool) {
	i = verifSkipWS(s, i)
	if i >= len(s) {
		return nil, i, false
	}
	c := s[i]
	switch {
	case c == 'n':
		if verifJSONLit(s, i, "null") {
			return nil, i + 4, true
		}
		return nil, i, false
	case c == 't':
		if verifJSONLit(s, i, "true") {
			return true, i + 4, true
		}
		return nil, i, false
	case c == 'f':
		if verifJSONLit(s, i, "false") {
			return false, i + 5, true
		}
		return nil, i, false
	case c == '"':
		v, j, ok := verifJSONStringAt(s, i)
		if !ok {
			return nil, j, false
		}
		return v, j, true
	case c == '-' || (c >= '0' && c <= '9'):
		f, j, ok := verifJSONNumberAt(s, i)
		if !ok {
			return nil, j, false
		}
		return f, j, true
	case c == '[':
		if depth <= 0 {
			verifUnreachable("MODEL:json-nesting-too-deep")
		}
		arr := []interface{}{}
		i = verifSkipWS(s, i+1)
		if i < len(s) && s[i] == ']' {
			return arr, i + 1, true
		}
		for {
			v, j, ok := verifJSONValueAt(s, i, depth-1)
			if !ok {
				return nil, j, false
			}
			arr = append(arr, v)
			i = verifSkipWS(s, j)
			if i >= len(s) {
				return nil, i, false
			}
			if s[i] == ']' {
				return arr, i + 1, true
			}
			if s[i] != ',' {
				return nil, i, false
			}
			i++
		}
	case c == '{':
		if depth <= 0 {
			verifUnreachable("MODEL:json-nesting-too-deep")
		}
		obj := map[string]interface{}{}
		i = verifSkipWS(s, i+1)
		if i < len(s) && s[i] == '}' {
			return obj, i + 1, true
		}
		for {
			i = verifSkipWS(s, i)
			k, j, ok := verifJSONStringAt(s, i)
			if !ok {
				return nil, j, false
			}
			i = verifSkipWS(s, j)
			if i >= len(s) || s[i] != ':' {
				return nil, i, false
			}
			v, j2, ok := verifJSONValueAt(s, i+1, depth-1)
			if !ok {
				return nil, j2, false
			}
			obj[k] = v
			i = verifSkipWS(s, j2)
			if i >= len(s) {
				return nil, i, false
			}
			if s[i] == '}' {
				return obj, i + 1, true
			}
			if s[i] != ',' {
				return nil, i, false
			}
			i++
		}
	}
	return nil, i, false
}

// verifModelJSONValue models json.Unmarshal(b, &interface{}).
func verifModelJSONValue(s string) (interface{}, bool) {
	v, j, ok := verifJSONValueAt(s, 0, 4)
	if !ok {
		return nil, false
	}
	j = verifSkipWS(s, j)
	if j != len(s) {
		return nil, false
	}
	return v, true
}
