//go:build verif || verifnative

package jmespath

// C14: names and constants pass through the lexer unchanged.


func verifHexChar(n byte) string {
	return string([]byte{byte(verifIteInt(n < 10, int('0'+n), int('a'+n-10)))})
}

// spellQuoted: s written as a JSON string (the quoted-identifier spelling).
func spellQuoted(s string) string {
	out := "\""
	for i := 0; i < len(s); i++ {
		c := s[i]
		switch {
		case c == '"':
			out += "\\\""
		case c == '\\':
			out += "\\\\"
		case c < 0x20:
			out += "\\u00" + verifHexChar(c>>4) + verifHexChar(c&15)
		default:
			out += s[i : i+1]
		}
	}
	return out + "\""
}

// spellRaw: s as a raw string literal; only ' needs an escape.
func spellRaw(s string) string {
	out := "'"
	for i := 0; i < len(s); i++ {
		if s[i] == '\'' {
			out += "\\'"
		} else {
			out += s[i : i+1]
		}
	}
	return out + "'"
}

// spellLiteral: JSON text inside backticks; only ` needs an escape.
func spellLiteral(jsonText string) string {
	out := "`"
	for i := 0; i < len(jsonText); i++ {
		if jsonText[i] == '`' {
			out += "\\`"
		} else {
			out += jsonText[i : i+1]
		}
	}
	return out + "`"
}

func VerifQuotedIdent() {
	s := verifNondetString(verifParam("S"))
	q := spellQuoted(s)
	toks, err := NewLexer().tokenize(q)
	verifNote("err", err != nil)
	verifAssert(err == nil, "C14:quoted-identifier-rejected")
	if err != nil {
		return
	}
	verifAssert(len(toks) == 2 && toks[0].tokenType == tQuotedIdentifier, "C14:quoted-identifier-token")
	if len(toks) != 2 {
		return
	}
	verifAssert(toks[0].value == s, "C14:quoted-identifier-denotes-other-name")
	marker := 42.0
	got, serr := Search(q, map[string]interface{}{s: marker})
	verifAssert(serr == nil, "C14:quoted-identifier-search-fails")
	verifAssert(got == marker, "C14:quoted-identifier-selects-other-key")
}

func VerifRawString() {
	s := verifNondetString(verifParam("S"))
	// the only string that cannot be written is one ending in a backslash
	// (it would escape the closing quote)
	if len(s) > 0 {
		verifAssume(s[len(s)-1] != '\\')
	}
	r := spellRaw(s)
	got, err := Search(r, nil)
	verifNote("err", err != nil)
	verifAssert(err == nil, "C14:raw-string-rejected")
	if err != nil {
		return
	}
	gs, ok := got.(string)
	verifAssert(ok, "C14:raw-string-not-a-string")
	if ok {
		verifAssert(gs == s, "C14:raw-string-denotes-other-value")
	}
}

// VerifRawPair: two raw strings (and a quoted identifier) in one expression:
// nothing of the first literal may leak into the second.
func VerifRawPair() {
	S := verifParam("S")
	s1 := verifNondetString(S)
	s2 := verifNondetString(S)
	if len(s1) > 0 {
		verifAssume(s1[len(s1)-1] != '\\')
	}
	if len(s2) > 0 {
		verifAssume(s2[len(s2)-1] != '\\')
	}
	expr := "[" + spellRaw(s1) + ", " + spellRaw(s2) + ", " + spellQuoted(s1) + "]"
	got, err := Search(expr, map[string]interface{}{s1: 7.0})
	verifNote("err", err != nil)
	verifAssert(err == nil, "C14:raw-string-rejected")
	if err != nil {
		return
	}
	arr, ok := got.([]interface{})
	verifAssert(ok && len(arr) == 3, "C14:raw-string-pair-shape")
	if !ok || len(arr) != 3 {
		return
	}
	a0, ok0 := arr[0].(string)
	a1, ok1 := arr[1].(string)
	verifAssert(ok0 && ok1, "C14:raw-string-not-a-string")
	if ok0 && ok1 {
		verifAssert(a0 == s1, "C14:raw-string-denotes-other-value")
		verifAssert(a1 == s2, "C14:second-raw-string-denotes-other-value")
	}
	verifAssert(arr[2] == 7.0, "C14:quoted-identifier-selects-other-key")
}

func VerifLiteral() {
	s := verifNondetString(verifParam("S"))
	shape := verifParam("shape")
	js := spellQuoted(s)
	var want interface{} = s
	switch shape {
	case 1:
		js = "[" + js + ",1]"
		want = []interface{}{s, 1.0}
	case 2:
		js = "{\"k\":" + js + "}"
		want = map[string]interface{}{"k": s}
	case 3:
		js = " " + js + "\n"
	}
	lit := spellLiteral(js)
	got, err := Search(lit, nil)
	verifNote("err", err != nil)
	verifAssert(err == nil, "C14:literal-rejected")
	if err != nil {
		return
	}
	verifAssert(verifDeepEqual(got, want), "C14:literal-denotes-other-value")
}

func verifIdentStart(c byte) bool {
	return verifOr(verifOr(verifAnd(c >= 'A', c <= 'Z'), verifAnd(c >= 'a', c <= 'z')), c == '_')
}
func verifIdentChar(c byte) bool {
	return verifOr(verifIdentStart(c), verifAnd(c >= '0', c <= '9'))
}

// VerifUnquoted: N arbitrary bytes are a single unquoted identifier token
// iff they match [A-Za-z_][A-Za-z0-9_]*; and whitespace inserted at a token
// boundary never changes the token (type, value) sequence.
func VerifUnquoted() {
	n := verifParam("N")
	b := verifNondetBytes(n)
	matches := n > 0
	for i := 0; i < n; i++ {
		if i == 0 {
			matches = verifAnd(matches, verifIdentStart(b[i]))
		} else {
			matches = verifAnd(matches, verifIdentChar(b[i]))
		}
	}
	toks, err := NewLexer().tokenize(b)
	verifNote("err", err != nil)
	single := err == nil && len(toks) == 2 && toks[0].tokenType == tUnquotedIdentifier && toks[0].value == b
	verifAssert(single == matches, "C14:unquoted-identifier-iff-regex")
	if err != nil {
		return
	}
	ws := verifNondetByte()
	verifAssume(verifOr(verifOr(ws == ' ', ws == '\t'), verifOr(ws == '\n', ws == '\r')))
	for k := 0; k < len(toks); k++ {
		start := toks[k].position
		if toks[k].tokenType == tJSONLiteral || toks[k].tokenType == tStringLiteral {
			start--
		}
		b2 := b[:start] + string([]byte{ws}) + b[start:]
		toks2, err2 := NewLexer().tokenize(b2)
		verifAssert(err2 == nil && len(toks2) == len(toks), "C14,C03:whitespace-changes-tokens")
		if err2 != nil || len(toks2) != len(toks) {
			return
		}
		for i := range toks {
			verifAssert(toks2[i].tokenType == toks[i].tokenType && toks2[i].value == toks[i].value, "C14,C03:whitespace-changes-tokens")
		}
	}
}
