//go:build verif || verifnative

package jmespath

// ---------------------------------------------------------------------
// C12 / C13: compiled expressions. The frame monitor (executor) reports any
// store into memory that existed before verifFreeze: the compiled AST, the
// interpreter and its function table, package variables, the documents.
// Natively the same is observed through snapshots.
// ---------------------------------------------------------------------

// VerifCompiled: (*JMESPath).Search on a compiled template; nothing that
// existed before the call may be written (premise of C12's reduction).
func VerifCompiled() {
	text := verifParamStr("expr")
	depth := verifParam("depth")
	jp, cerr := Compile(text)
	if cerr != nil {
		verifUnreachable("C12,C13:template-does-not-compile")
		return
	}
	before := ""
	if verifNative() {
		before = verifFingerprint(jp)
	}
	doc := verifNondetJSON(depth)
	verifFreeze()
	_, err := jp.Search(doc)
	verifThaw()
	verifNote("err", err != nil)
	if verifNative() {
		verifAssert(verifFingerprint(jp) == before, "frame-write")
	}
}

func verifSameOutcome(r1 interface{}, e1 error, r2 interface{}, e2 error, mode int, id string) {
	verifAssert((e1 != nil) == (e2 != nil), id+":error-ness")
	if e1 != nil || e2 != nil {
		return
	}
	switch mode {
	case 0:
		verifAssert(specMatch(r1, r2), id+":value")
	case 1:
		verifAssert(specMatchMultiset(r1, r2), id+":value-up-to-member-order")
	}
}

// VerifHistory (C13): one-shot Search, then a compiled expression used on d,
// on another document d2 (which may fail), and on d again.
func VerifHistory() {
	text := verifParamStr("expr")
	depth := verifParam("depth")
	mode := verifParam("mode")
	d := verifNondetJSON(depth)
	d2 := verifNondetJSON(depth)
	r1, e1 := Search(text, d)
	jp, cerr := Compile(text)
	if cerr != nil {
		verifAssert(e1 != nil, "C13:compile-fails-but-search-succeeds")
		return
	}
	r2, e2 := jp.Search(d)
	verifSameOutcome(r1, e1, r2, e2, mode, "C13:one-shot-vs-compiled")
	jp.Search(d2)
	r3, e3 := jp.Search(d)
	verifSameOutcome(r2, e2, r3, e3, mode, "C13:repeated-search-differs")
	jp2, _ := Compile(text)
	r4, e4 := jp2.Search(d)
	verifSameOutcome(r3, e3, r4, e4, mode, "C13:used-vs-fresh-compiled")
	verifNote("err", e1 != nil)
}

// VerifParserReuse (C13): a Parser that has parsed B1 (possibly failing) and
// whose fields are then arbitrary behaves on B2 like a fresh one.
func VerifParserReuse() {
	n := verifParam("N")
	b1 := verifParamStr("first")
	b2 := verifNondetBytes(n)
	p := NewParser()
	p.Parse(b1)
	if verifNondetBool() {
		// arbitrary pre-state (one inductive step instead of longer histories)
		p.index = verifNondetInt()
		p.expression = "stale"
		if verifNondetBool() {
			p.tokens = nil
		}
	}
	a1, e1 := p.Parse(b2)
	a2, e2 := NewParser().Parse(b2)
	verifNote("err", e2 != nil)
	verifAssert((e1 != nil) == (e2 != nil), "C13:reused-parser-error-ness")
	if e1 == nil && e2 == nil {
		verifAssert(verifASTEqual(a1, a2), "C13:reused-parser-ast")
		return
	}
	if e1 != nil && e2 != nil {
		s1, ok1 := e1.(SyntaxError)
		s2, ok2 := e2.(SyntaxError)
		verifAssert(ok1 == ok2, "C13:reused-parser-error-type")
		if ok1 && ok2 {
			verifAssert(s1.Offset == s2.Offset, "C13:reused-parser-error-offset")
			verifAssert(s1.Expression == s2.Expression, "C13:reused-parser-error-expression")
		}
	}
}

// ---------------------------------------------------------------------
// C15: pipe = sequential composition; substitution of a root-evaluated
// sub-expression by a literal of its value.
// ---------------------------------------------------------------------
func VerifPipeLaw() {
	ta := verifParamStr("a")
	tb := verifParamStr("b")
	mode := verifParam("mode")
	depth := verifParam("depth")
	d := verifNondetJSON(depth)
	if verifHasParam("first") {
		// an earlier (possibly failing) call must not influence the law
		Search(verifParamStr("first"), nil)
	}
	whole, ew := Search(ta+" | "+tb, d)
	mid, ea := Search(ta, d)
	verifNote("errw", ew != nil)
	if ea != nil {
		verifAssert(ew != nil, "C15:pipe-error-iff-a-step-errors")
		return
	}
	split, eb := Search(tb, mid)
	verifSameOutcome(whole, ew, split, eb, mode, "C15:pipe-is-composition")
}

func verifPatchHole(n *ASTNode, v interface{}) {
	if n.nodeType == ASTLiteral {
		if s, ok := n.value.(string); ok && s == "\x00HOLE" {
			n.value = v
		}
	}
	for i := range n.children {
		verifPatchHole(&n.children[i], v)
	}
}

func VerifSubst() {
	withE := verifParamStr("ctxe")  // C[E]
	withH := verifParamStr("ctxh")  // C[`"\u0000HOLE"`]
	e := verifParamStr("e")
	mode := verifParam("mode")
	depth := verifParam("depth")
	d := verifNondetJSON(depth)
	r1, e1 := Search(withE, d)
	v, ev := Search(e, d)
	verifNote("err", e1 != nil)
	if ev != nil {
		return // E itself fails: nothing to substitute
	}
	ast, perr := NewParser().Parse(withH)
	if perr != nil {
		verifUnreachable("C15:hole-template-does-not-parse")
		return
	}
	verifPatchHole(&ast, v)
	r2, e2 := newInterpreter().Execute(ast, d)
	verifSameOutcome(r1, e1, r2, e2, mode, "C15:substitution")
}

// VerifSearchHistory (C13): the public entry points carry no state from an
// earlier (possibly failing) call into the next one.
func VerifSearchHistory() {
	n := verifParam("N")
	first := verifParamStr("first")
	b2 := verifParamStr("pre") + verifNondetBytes(n) + verifParamStr("post")
	Search(first, nil)
	Compile(first)
	jp, e1 := Compile(b2)
	a2, e2 := NewParser().Parse(b2)
	verifNote("err", e2 != nil)
	verifAssert((e1 != nil) == (e2 != nil), "C13:compile-after-history-error-ness")
	if e1 == nil && e2 == nil {
		verifAssert(verifASTEqual(jp.ast, a2), "C13:compile-after-history-ast")
	}
	r1, s1 := Search(b2, nil)
	if e2 == nil {
		r2, s2 := newInterpreter().Execute(a2, nil)
		verifAssert((s1 != nil) == (s2 != nil), "C13:search-after-history-error-ness")
		if s1 == nil && s2 == nil {
			verifAssert(verifDeepEqual(r1, r2), "C13:search-after-history-value")
		}
	} else {
		verifAssert(s1 != nil, "C13:search-after-history-error-ness")
	}
}
