//go:build verif && !verifnative

package jmespath

// Body-less declarations: the symbolic executor (symgo) intercepts these.
// The same names have ordinary bodies in native.go (build tag verifnative),
// so every harness also runs natively for counterexample replay.

func verifNondetInt() int
func verifNondetBool() bool
func verifNondetByte() byte
func verifNondetFloat64() float64
func verifNondetJSON(depth int) interface{}
func verifNondetString(maxLen int) string
func verifNondetBytes(n int) string
func verifChoose(n int) int
func verifParam(name string) int
func verifParamStr(name string) string
func verifHasParam(name string) bool
func verifAssume(c bool)
func verifAssert(c bool, id string)
func verifUnreachable(id string)
func verifFreeze()
func verifThaw()
func verifNote(tag string, v interface{})
func verifAnd(a, b bool) bool
func verifOr(a, b bool) bool
func verifIteInt(c bool, a, b int) int
func verifIsLazy(v interface{}) bool
func verifSameNode(a, b interface{}) bool
func verifDeepEqual(a, b interface{}) bool
func verifNative() bool
func verifCatch(f func()) (bool, string)
func verifMentions(msg, s string) bool
func verifIsOpaque(s string) bool
func verifMarshalOf(s string, v interface{}) bool
func verifAbstractFloat() float64
func verifGrammarAccepts(types []tokType) bool
func verifFinite(x float64) bool
func verifFingerprint(v interface{}) string
