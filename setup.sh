#!/bin/sh
# Builds the symbolic executor offline from files on disk only.
set -e
cd "$(dirname "$0")"
export GOFLAGS=-mod=mod GOPROXY=off GOSUMDB=off GOTOOLCHAIN=local
mkdir -p bin evidence
(cd engine && go build -o ../bin/symgo .)
for s in z3 cvc5; do command -v $s >/dev/null || { echo "missing solver $s"; exit 1; }; done
echo '(set-logic ALL)(declare-const x (_ BitVec 8))(assert (= x #x01))(check-sat)' | z3 -in | grep -q '^sat$'
echo '(set-logic ALL)(declare-const x (_ BitVec 8))(assert (= x #x01))(check-sat)' | cvc5 --lang=smt2 | grep -q '^sat$'
# differential validation of the Go models of standard-library functions
./bin/symgo selftest
echo "setup ok"
