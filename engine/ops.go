package main

import (
	"fmt"
	"go/token"
	"go/types"
	"math"
	"strings"
)

// ---- integer ops ----
func ext(i Int, w int, signedSrc bool) Int {
	if i.W == w {
		return i
	}
	if i.conc() {
		var v uint64
		if signedSrc {
			v = uint64(Int{W: i.W, S: true, C: i.C}.sval())
		} else {
			v = i.C & mask(i.W)
		}
		return Int{W: w, S: i.S, C: v & mask(w)}
	}
	if w < i.W {
		return Int{W: w, S: i.S, T: fmt.Sprintf("((_ extract %d 0) %s)", w-1, i.T)}
	}
	op := "zero_extend"
	if signedSrc {
		op = "sign_extend"
	}
	return Int{W: w, S: i.S, T: fmt.Sprintf("((_ %s %d) %s)", op, w-i.W, i.T)}
}

func (x *Exec) binInt(op token.Token, a, b Int) Val {
	a, b = x.subst(a), x.subst(b)
	if op == token.SHL || op == token.SHR {
		return x.shift(op, a, b)
	}
	if a.W != b.W {
		panic(fmt.Sprintf("width mismatch %d %d at %s", a.W, b.W, x.where()))
	}
	w, s := a.W, a.S
	if a.conc() && b.conc() {
		av, bv := a.C&mask(w), b.C&mask(w)
		as, bs := a.sval(), b.sval()
		r := func(v uint64) Val { return Int{W: w, S: s, C: v & mask(w)} }
		bl := func(v bool) Val { return Bool{C: v} }
		switch op {
		case token.ADD:
			return r(av + bv)
		case token.SUB:
			return r(av - bv)
		case token.MUL:
			return r(av * bv)
		case token.QUO:
			if bv == 0 {
				x.fail("div0", "")
			}
			if s {
				if bs == -1 {
					return r(uint64(-as))
				}
				return r(uint64(as / bs))
			}
			return r(av / bv)
		case token.REM:
			if bv == 0 {
				x.fail("div0", "")
			}
			if s {
				if bs == -1 {
					return r(0)
				}
				return r(uint64(as % bs))
			}
			return r(av % bv)
		case token.AND:
			return r(av & bv)
		case token.OR:
			return r(av | bv)
		case token.XOR:
			return r(av ^ bv)
		case token.AND_NOT:
			return r(av &^ bv)
		case token.EQL:
			return bl(av == bv)
		case token.NEQ:
			return bl(av != bv)
		case token.LSS:
			if s {
				return bl(as < bs)
			}
			return bl(av < bv)
		case token.LEQ:
			if s {
				return bl(as <= bs)
			}
			return bl(av <= bv)
		case token.GTR:
			if s {
				return bl(as > bs)
			}
			return bl(av > bv)
		case token.GEQ:
			if s {
				return bl(as >= bs)
			}
			return bl(av >= bv)
		}
		panic("binop " + op.String())
	}
	at, bt := a.term(), b.term()
	ri := func(f string) Val { return x.nmI(Int{W: w, S: s, T: "(" + f + " " + at + " " + bt + ")"}) }
	rb := func(f string) Val { return x.nmB(Bool{T: "(" + f + " " + at + " " + bt + ")"}) }
	su := func(sg, us string) string {
		if s {
			return sg
		}
		return us
	}
	switch op {
	case token.ADD:
		return ri("bvadd")
	case token.SUB:
		return ri("bvsub")
	case token.MUL:
		return ri("bvmul")
	case token.QUO, token.REM:
		x.mustNot("(= "+bt+" "+bvc(w, 0)+")", "div0", "")
		if op == token.QUO {
			return ri(su("bvsdiv", "bvudiv"))
		}
		return ri(su("bvsrem", "bvurem"))
	case token.AND:
		return ri("bvand")
	case token.OR:
		return ri("bvor")
	case token.XOR:
		return ri("bvxor")
	case token.AND_NOT:
		return x.nmI(Int{W: w, S: s, T: "(bvand " + at + " (bvnot " + bt + "))"})
	case token.EQL, token.NEQ:
		if at == bt {
			return Bool{C: op == token.EQL}
		}
		e := Bool{T: "(= " + at + " " + bt + ")"}
		// remember var == const for substitution
		if isPlainVar(a.T) && b.conc() {
			e.EqVar, e.EqC = a.T, b.uval()
		} else if isPlainVar(b.T) && a.conc() {
			e.EqVar, e.EqC = b.T, a.uval()
		}
		if e.EqVar != "" && x.notEq[e.EqVar][e.EqC] {
			return Bool{C: op != token.EQL}
		}
		if op == token.EQL {
			return e
		}
		return Bool{T: "(not " + e.T + ")"}
	case token.LSS:
		return rb(su("bvslt", "bvult"))
	case token.LEQ:
		return rb(su("bvsle", "bvule"))
	case token.GTR:
		return rb(su("bvsgt", "bvugt"))
	case token.GEQ:
		return rb(su("bvsge", "bvuge"))
	}
	panic("binop " + op.String())
}

func isPlainVar(t string) bool {
	return t != "" && t[0] == 'v' && !strings.ContainsAny(t, " (")
}

func (x *Exec) shift(op token.Token, a, b Int) Val {
	w := a.W
	if b.S {
		if b.conc() {
			if b.sval() < 0 {
				x.fail("negshift", "")
			}
		} else {
			x.mustNot("(bvslt "+b.T+" "+bvc(b.W, 0)+")", "negshift", "")
		}
	}
	if a.conc() && b.conc() {
		n := b.C & mask(b.W)
		var v uint64
		if op == token.SHL {
			if n >= uint64(w) {
				v = 0
			} else {
				v = a.C << n
			}
		} else if a.S {
			if n >= uint64(w) {
				n = uint64(w - 1)
			}
			v = uint64(a.sval() >> n)
		} else {
			if n >= uint64(w) {
				v = 0
			} else {
				v = (a.C & mask(w)) >> n
			}
		}
		return Int{W: w, S: a.S, C: v & mask(w)}
	}
	var cnt string
	big := "false"
	if b.W > w {
		big = "(bvuge " + b.term() + " " + bvc(b.W, uint64(w)) + ")"
		cnt = ext(b, w, false).term()
	} else {
		cnt = ext(Int{W: b.W, T: b.T, C: b.C}, w, false).term()
		// bvshl with count >= w already yields 0 in SMT-LIB; bvashr saturates: same as Go
	}
	f := "bvshl"
	if op == token.SHR {
		f = "bvlshr"
		if a.S {
			f = "bvashr"
		}
	}
	t := "(" + f + " " + a.term() + " " + cnt + ")"
	if big != "false" {
		over := bvc(w, 0)
		if op == token.SHR && a.S {
			over = "(bvashr " + a.term() + " " + bvc(w, uint64(w-1)) + ")"
		}
		t = "(ite " + big + " " + over + " " + t + ")"
	}
	return x.nmI(Int{W: w, S: a.S, T: t})
}

// ---- strings ----
func (x *Exec) needContent(s Str, what string) {
	if s.Op != nil {
		panic(unsupported{"content of opaque string (" + s.Op.Kind + ") needed by " + what + " at " + x.where()})
	}
}

func (x *Exec) strEq(a, b Str) Bool {
	x.needContent(a, "==")
	x.needContent(b, "==")
	if len(a.B) != len(b.B) {
		return Bool{C: false}
	}
	res := Bool{C: true}
	parts := []string{}
	for i := range a.B {
		ai, bi := x.subst(a.B[i]), x.subst(b.B[i])
		if ai.conc() && bi.conc() {
			if ai.C != bi.C {
				return Bool{C: false}
			}
			continue
		}
		if ai.T == bi.T {
			continue
		}
		parts = append(parts, "(= "+ai.term()+" "+bi.term()+")")
	}
	if len(parts) == 0 {
		return res
	}
	if len(parts) == 1 {
		return Bool{T: parts[0]}
	}
	return x.nmB(Bool{T: "(and " + strings.Join(parts, " ") + ")"})
}

func (x *Exec) strLess(a, b Str) Bool {
	x.needContent(a, "<")
	x.needContent(b, "<")
	n := len(a.B)
	if len(b.B) < n {
		n = len(b.B)
	}
	res := Bool{C: len(a.B) < len(b.B)}
	for i := n - 1; i >= 0; i-- {
		lt := x.binInt(token.LSS, a.B[i], b.B[i]).(Bool)
		eq := x.binInt(token.EQL, a.B[i], b.B[i]).(Bool)
		if lt.T == "" && eq.T == "" {
			if lt.C {
				res = Bool{C: true}
			} else if !eq.C {
				res = Bool{C: false}
			}
			continue
		}
		res = x.nmB(Bool{T: "(ite " + lt.term() + " true (ite " + eq.term() + " " + res.term() + " false))"})
	}
	return res
}

func (x *Exec) strConcat(a, b Str) Str {
	if a.Op != nil || b.Op != nil {
		if a.Op == nil && len(a.B) == 0 {
			return b
		}
		if b.Op == nil && len(b.B) == 0 {
			return a
		}
		return opaque("concat", a, b)
	}
	if len(a.B) == 0 {
		return b
	}
	if len(b.B) == 0 {
		return a
	}
	return Str{B: append(append(make([]Int, 0, len(a.B)+len(b.B)), a.B...), b.B...)}
}

func (x *Exec) strLen(s Str) Int {
	if s.Op != nil {
		if s.Op.Len == "" {
			n := x.fresh("(_ BitVec 64)", "oplen")
			x.sol.send("(assert (bvsge " + n + " (_ bv0 64)))\n(assert (bvslt " + n + " (_ bv1000000 64)))\n")
			s.Op.Len = n
		}
		return Int{W: 64, S: true, T: s.Op.Len}
	}
	return mkInt(int64(len(s.B)))
}

// ---- floats ----
func (x *Exec) fltBin(op token.Token, a, b Flt) Val {
	if a.T == "" && b.T == "" {
		switch op {
		case token.ADD:
			return Flt{C: a.C + b.C}
		case token.SUB:
			return Flt{C: a.C - b.C}
		case token.MUL:
			return Flt{C: a.C * b.C}
		case token.QUO:
			return Flt{C: a.C / b.C}
		case token.EQL:
			return Bool{C: a.C == b.C}
		case token.NEQ:
			return Bool{C: a.C != b.C}
		case token.LSS:
			return Bool{C: a.C < b.C}
		case token.LEQ:
			return Bool{C: a.C <= b.C}
		case token.GTR:
			return Bool{C: a.C > b.C}
		case token.GEQ:
			return Bool{C: a.C >= b.C}
		}
	}
	at, bt := a.term(), b.term()
	if a.T != "" && a.T == b.T && (op == token.EQL || op == token.NEQ || op == token.LEQ || op == token.GEQ) {
		// x == x holds unless x is NaN
		r := x.nmB(Bool{T: "(not (fp.isNaN " + a.T + "))"})
		if op == token.NEQ {
			return not(r)
		}
		return r
	}
	if a.T == "" && math.IsNaN(a.C) {
		at = "(_ NaN 11 53)"
	}
	if b.T == "" && math.IsNaN(b.C) {
		bt = "(_ NaN 11 53)"
	}
	switch op {
	case token.ADD:
		return x.nmF(Flt{T: "(fp.add RNE " + at + " " + bt + ")"})
	case token.SUB:
		return x.nmF(Flt{T: "(fp.sub RNE " + at + " " + bt + ")"})
	case token.MUL:
		return x.nmF(Flt{T: "(fp.mul RNE " + at + " " + bt + ")"})
	case token.QUO:
		return x.nmF(Flt{T: "(fp.div RNE " + at + " " + bt + ")"})
	case token.EQL:
		return x.nmB(Bool{T: "(fp.eq " + at + " " + bt + ")"})
	case token.NEQ:
		return x.nmB(Bool{T: "(not (fp.eq " + at + " " + bt + "))"})
	case token.LSS:
		return x.nmB(Bool{T: "(fp.lt " + at + " " + bt + ")"})
	case token.LEQ:
		return x.nmB(Bool{T: "(fp.leq " + at + " " + bt + ")"})
	case token.GTR:
		return x.nmB(Bool{T: "(fp.gt " + at + " " + bt + ")"})
	case token.GEQ:
		return x.nmB(Bool{T: "(fp.geq " + at + " " + bt + ")"})
	}
	panic("fltBin " + op.String())
}

// ---- generic ----
func (x *Exec) ite(c Bool, a, b Val) Val {
	if c.T == "" {
		if c.C {
			return a
		}
		return b
	}
	switch av := a.(type) {
	case Int:
		bb := b.(Int)
		if av.conc() && bb.conc() && av.uval() == bb.uval() {
			return av
		}
		if av.T != "" && av.T == bb.T {
			return av
		}
		return x.nmI(Int{W: av.W, S: av.S, T: "(ite " + c.T + " " + av.term() + " " + bb.term() + ")"})
	case Bool:
		bb := b.(Bool)
		if av.T == "" && bb.T == "" {
			if av.C == bb.C {
				return av
			}
			if av.C {
				return Bool{T: c.T}
			}
			return not(c)
		}
		if av.T == "" {
			if av.C {
				return x.or(c, bb)
			}
			return x.and(not(c), bb)
		}
		if bb.T == "" {
			if bb.C {
				return x.or(not(c), av)
			}
			return x.and(c, av)
		}
		return x.nmB(Bool{T: "(ite " + c.T + " " + av.term() + " " + bb.term() + ")"})
	case Flt:
		bb := b.(Flt)
		return x.nmF(Flt{T: "(ite " + c.T + " " + av.term() + " " + bb.term() + ")"})
	case Struct:
		bb := b.(Struct)
		r := Struct{F: make([]Val, len(av.F))}
		for i := range av.F {
			r.F[i] = x.ite(c, av.F[i], bb.F[i])
		}
		return r
	case Array:
		bb := b.(Array)
		r := Array{E: make([]Val, len(av.E))}
		for i := range av.E {
			r.E[i] = x.ite(c, av.E[i], bb.E[i])
		}
		return r
	case Str:
		bb := b.(Str)
		if av.Op == nil && bb.Op == nil && len(av.B) == len(bb.B) {
			r := Str{B: make([]Int, len(av.B))}
			for i := range av.B {
				r.B[i] = x.ite(c, av.B[i], bb.B[i]).(Int)
			}
			return r
		}
	case Iface:
		bb := b.(Iface)
		if av.L != nil && av.L == bb.L {
			return av
		}
		if av.L == nil && bb.L == nil {
			if av.T == nil && bb.T == nil {
				return av
			}
			if av.T != nil && bb.T != nil && types.Identical(av.T, bb.T) {
				return Iface{T: av.T, V: x.ite(c, av.V, bb.V)}
			}
		}
	case Ptr:
		bb := b.(Ptr)
		if av.Base == bb.Base && len(av.Path) == len(bb.Path) {
			same := true
			for i := range av.Path {
				if av.Path[i].Field != bb.Path[i].Field || (av.Path[i].Idx == nil) != (bb.Path[i].Idx == nil) {
					same = false
				} else if av.Path[i].Idx != nil && (av.Path[i].Idx.T != bb.Path[i].Idx.T || av.Path[i].Idx.C != bb.Path[i].Idx.C) {
					same = false
				}
			}
			if same {
				return av
			}
		}
	case Slice:
		bb := b.(Slice)
		if av == bb {
			return av
		}
	case *Map:
		if av == b.(*Map) {
			return av
		}
	case Fn:
		if av.F == b.(Fn).F && len(av.Env) == 0 {
			return av
		}
	}
	// cannot merge: fork instead
	if x.truth(c) {
		return a
	}
	return b
}

func (x *Exec) binop(op token.Token, a, b Val) Val {
	if ia, ok := a.(Iface); ok {
		ib := b.(Iface)
		if ia.L != nil && ia.L == ib.L {
			return Bool{C: op == token.EQL}
		}
		// lazy node compared with a concrete value: ask only for that kind
		if ia.L != nil && !ia.L.done && ib.L == nil {
			if r, ok := x.lazyVsConcrete(ia.L, ib); ok {
				if op == token.EQL {
					return r
				}
				return not(r)
			}
		} else if ib.L != nil && !ib.L.done && ia.L == nil {
			if r, ok := x.lazyVsConcrete(ib.L, ia); ok {
				if op == token.EQL {
					return r
				}
				return not(r)
			}
		}
		a = x.resolve(ia)
		b = x.resolve(ib)
	}
	switch av := a.(type) {
	case Flt:
		return x.fltBin(op, av, b.(Flt))
	case *Map:
		bv := b.(*Map)
		eq := av == bv
		if op == token.EQL {
			return Bool{C: eq}
		}
		return Bool{C: !eq}
	case Int:
		return x.binInt(op, av, b.(Int))
	case Bool:
		bv := b.(Bool)
		switch op {
		case token.EQL:
			if av.T == "" && bv.T == "" {
				return Bool{C: av.C == bv.C}
			}
			if av.T == "" {
				if av.C {
					return bv
				}
				return not(bv)
			}
			if bv.T == "" {
				if bv.C {
					return av
				}
				return not(av)
			}
			return x.nmB(Bool{T: "(= " + av.term() + " " + bv.term() + ")"})
		case token.NEQ:
			return not(x.binop(token.EQL, a, b).(Bool))
		case token.AND, token.LAND:
			return x.and(av, bv)
		case token.OR, token.LOR:
			return x.or(av, bv)
		}
	case Str:
		bv := b.(Str)
		switch op {
		case token.ADD:
			return x.strConcat(av, bv)
		case token.EQL:
			return x.strEq(av, bv)
		case token.NEQ:
			return not(x.strEq(av, bv))
		case token.LSS:
			return x.strLess(av, bv)
		case token.GTR:
			return x.strLess(bv, av)
		case token.LEQ:
			return not(x.strLess(bv, av))
		case token.GEQ:
			return not(x.strLess(av, bv))
		}
	case Iface:
		bv := b.(Iface)
		var e Bool
		switch {
		case av.T == nil || bv.T == nil:
			e = Bool{C: av.T == nil && bv.T == nil}
		case !types.Identical(av.T, bv.T):
			e = Bool{C: false}
		default:
			if !types.Comparable(av.T) {
				x.fail("uncomparable-eq", "")
			}
			e = x.binop(token.EQL, av.V, bv.V).(Bool)
		}
		if op == token.EQL {
			return e
		}
		return not(e)
	case Ptr:
		bv := b.(Ptr)
		same := av.Base == bv.Base && len(av.Path) == len(bv.Path)
		if same {
			for i := range av.Path {
				pa, pb := av.Path[i], bv.Path[i]
				if pa.Field != pb.Field || (pa.Idx == nil) != (pb.Idx == nil) {
					same = false
				} else if pa.Idx != nil {
					if !pa.Idx.conc() || !pb.Idx.conc() {
						panic(unsupported{"pointer comparison with symbolic index"})
					}
					if pa.Idx.C != pb.Idx.C {
						same = false
					}
				}
			}
		}
		if op == token.EQL {
			return Bool{C: same}
		}
		return Bool{C: !same}
	case Slice:
		isnil := av.Arr == nil
		if bs, ok := b.(Slice); ok && bs.Arr != nil {
			panic(unsupported{"slice comparison"})
		}
		if op == token.EQL {
			return Bool{C: isnil}
		}
		return Bool{C: !isnil}
	case Fn:
		isnil := av.F == nil && av.Native == nil
		if op == token.EQL {
			return Bool{C: isnil}
		}
		return Bool{C: !isnil}
	case Struct:
		bv := b.(Struct)
		res := Bool{C: true}
		for i := range av.F {
			e := x.binop(token.EQL, av.F[i], bv.F[i]).(Bool)
			res = x.and(res, e)
		}
		if op == token.EQL {
			return res
		}
		return not(res)
	case Array:
		bv := b.(Array)
		res := Bool{C: true}
		for i := range av.E {
			e := x.binop(token.EQL, av.E[i], bv.E[i]).(Bool)
			res = x.and(res, e)
		}
		if op == token.EQL {
			return res
		}
		return not(res)
	case RT:
		bv := b.(RT)
		e := types.Identical(av.t, bv.t)
		if op == token.EQL {
			return Bool{C: e}
		}
		return Bool{C: !e}
	}
	panic(unsupported{fmt.Sprintf("binop %s on %T at %s", op, a, x.where())})
}

// lazyVsConcrete: l == c where c is a concrete interface value.
func (x *Exec) lazyVsConcrete(l *Lazy, c Iface) (Bool, bool) {
	if c.T == nil {
		return Bool{C: x.lazyIs(l, kNull)}, true
	}
	k := jsonKindOfType(c.T)
	if k < 0 {
		// not a JSON type: never equal (and never a comparison panic, the
		// dynamic types differ)
		return Bool{C: false}, true
	}
	if !x.lazyIs(l, k) {
		return Bool{C: false}, true
	}
	return Bool{}, false
}
