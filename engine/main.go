package main

import (
	"flag"
	"fmt"
	"os"
	"runtime/debug"
	"runtime/pprof"
	"sort"
	"strconv"
	"strings"
	"time"
)

func usage() {
	fmt.Fprintln(os.Stderr, `usage:
  symgo run   -entry E [-p k=v]... [-workers n] [-W n] [-S n] [-keys a,b] [-unwind n] [-frame] [-props C04,...]
  symgo check <property> --tier quick|thorough
  symgo replay <path>
  symgo selftest`)
	os.Exit(2)
}

type multi []string

func (m *multi) String() string     { return strings.Join(*m, ",") }
func (m *multi) Set(s string) error { *m = append(*m, s); return nil }

func main() {
	if len(os.Args) < 2 {
		usage()
	}
	initTypes()
	debug.SetGCPercent(800)
	switch os.Args[1] {
	case "run":
		cmdRun(os.Args[2:])
	case "check":
		os.Exit(cmdCheck(os.Args[2:]))
	case "selftest":
		os.Exit(cmdSelftest(os.Args[2:]))
	case "templates":
		cmdTemplates(os.Args[2:])
	case "replay":
		os.Exit(cmdReplay(os.Args[2:]))
	default:
		usage()
	}
}

func cmdRun(args []string) {
	fs := flag.NewFlagSet("run", flag.ExitOnError)
	entry := fs.String("entry", "", "harness entry function")
	var ps multi
	fs.Var(&ps, "p", "parameter k=v")
	workers := fs.Int("workers", 16, "")
	W := fs.Int("W", 2, "max array length in symbolic documents")
	S := fs.Int("S", 1, "max string length in symbolic documents")
	keys := fs.String("keys", "a,b", "object key universe")
	unwind := fs.Int("unwind", 64, "loop budget per activation")
	frame := fs.Bool("frame", false, "frame monitor on")
	props := fs.String("props", "*", "active assertion prefixes")
	noifc := fs.Bool("noifconv", false, "")
	solver := fs.String("solver", "z3", "")
	wit := fs.Int("wit", 0, "witness every k-th path")
	verbose := fs.Bool("v", false, "")
	maxk := fs.Int("maxperkey", 1, "")
	prof := fs.String("cpuprofile", "", "")
	fs.Parse(args)
	if *prof != "" {
		f, _ := os.Create(*prof)
		pprof.StartCPUProfile(f)
		defer pprof.StopCPUProfile()
	}
	t0 := time.Now()
	P, err := loadProgram()
	if err != nil {
		fmt.Println("LOAD ERROR:", err)
		os.Exit(2)
	}
	fmt.Printf("load+build %.1fs\n", time.Since(t0).Seconds())
	params := map[string]string{}
	for _, p := range ps {
		kv := strings.SplitN(p, "=", 2)
		if len(kv) == 2 {
			params[kv[0]] = kv[1]
		}
	}
	j := newJob(*entry, params)
	j.W, j.S, j.Unwind, j.Frame, j.NoIfConv, j.WitEvery, j.MaxPerKey = *W, *S, *unwind, *frame, *noifc, *wit, *maxk
	if *keys == "" {
		j.Keys = nil
	} else {
		j.Keys = strings.Split(*keys, ",")
	}
	j.Props = strings.Split(*props, ",")
	s := newSched(P, time.Time{})
	s.solver = *solver
	s.add(j)
	t1 := time.Now()
	s.run(*workers)
	fmt.Printf("entry=%s paths=%d branches=%d obligations=%d queries=%d solver=%.2fs wall=%.2fs steps=%d\n", j.describe(), j.paths, j.branches,
		j.obligations.Load(), s.totalQueries, float64(s.solverTime)/1e9, time.Since(t1).Seconds(), j.steps)
	fmt.Println("path ends:", j.ends)
	if len(j.unknowns) > 0 {
		fmt.Println("UNKNOWN:", j.nUnknown, j.unknowns)
	}
	if len(j.unsupp) > 0 {
		fmt.Println("UNSUPPORTED:", j.unsupp)
	}
	if len(s.solverErrors) > 0 {
		fmt.Println("SOLVER ERRORS:", s.solverErrors)
	}
	for _, f := range j.allFindings() {
		fmt.Printf("FINDING %s at %s\n   tape %s abstract=%v\n", f.Key, f.Where, strings.Join(f.Tape, " | "), f.Abstract)
	}
	if *verbose {
		fns := []string{}
		for f := range j.funcs {
			fns = append(fns, f)
		}
		sort.Strings(fns)
		fmt.Println("functions encoded:", len(fns), fns)
		for i, w := range j.witnesses {
			if i < 5 {
				fmt.Println("witness:", w.Tape, w.Notes)
			}
		}
	}
	_ = strconv.Itoa
}
