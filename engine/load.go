package main

import (
	"fmt"
	"go/types"
	"os"
	"path/filepath"
	"strings"
	"sync"

	"golang.org/x/tools/go/packages"
	"golang.org/x/tools/go/ssa"
	"golang.org/x/tools/go/ssa/ssautil"
)

// Program is the SSA of /repo's current working tree plus the harness overlay.
type Program struct {
	prog      *ssa.Program
	lib       *ssa.Package // github.com/jmespath/go-jmespath
	cli       *ssa.Package // .../cmd/jpgo
	errorType *types.Interface
	loadSecs  float64
	overlay   map[string]string // virtual path -> real path
	mu        sync.Mutex
}

// repoDir is /repo; VERIF_REPO overrides it only for the seeded-change tooling (tools/matrix.sh).
var repoDir = func() string {
	if d := os.Getenv("VERIF_REPO"); d != "" {
		return d
	}
	return "/repo"
}()
const libPath = "github.com/jmespath/go-jmespath"

func verifDir() string {
	if d := os.Getenv("VERIF_DIR"); d != "" {
		return d
	}
	exe, err := os.Executable()
	if err == nil {
		d := filepath.Dir(filepath.Dir(exe))
		if _, err := os.Stat(filepath.Join(d, "harness")); err == nil {
			return d
		}
	}
	return "/verif"
}

// harnessOverlay maps harness files into the repository's package dirs.
func harnessOverlay(native bool) (map[string]string, error) {
	ov := map[string]string{}
	add := func(srcDir, dstDir string) error {
		ents, err := os.ReadDir(srcDir)
		if err != nil {
			return err
		}
		for _, e := range ents {
			if e.IsDir() || !strings.HasSuffix(e.Name(), ".go") {
				continue
			}
			if strings.HasSuffix(e.Name(), "_test.go") && !native {
				continue
			}
			ov[filepath.Join(dstDir, "zz_verif_"+e.Name())] = filepath.Join(srcDir, e.Name())
		}
		return nil
	}
	if err := add(filepath.Join(verifDir(), "harness"), repoDir); err != nil {
		return nil, err
	}
	if _, err := os.Stat(filepath.Join(verifDir(), "harness", "jpgo")); err == nil {
		if err := add(filepath.Join(verifDir(), "harness", "jpgo"), filepath.Join(repoDir, "cmd", "jpgo")); err != nil {
			return nil, err
		}
	}
	return ov, nil
}

func loadProgram() (*Program, error) {
	ov, err := harnessOverlay(false)
	if err != nil {
		return nil, err
	}
	overlay := map[string][]byte{}
	for v, r := range ov {
		b, err := os.ReadFile(r)
		if err != nil {
			return nil, err
		}
		overlay[v] = b
	}
	cfg := &packages.Config{Mode: packages.LoadAllSyntax, Dir: repoDir, BuildFlags: []string{"-tags=verif"},
		Overlay: overlay, Env: append(os.Environ(), "GOFLAGS=-mod=mod", "GOPROXY=off", "GOSUMDB=off", "GOTOOLCHAIN=local")}
	pkgs, err := packages.Load(cfg, ".", "./cmd/jpgo")
	if err != nil {
		return nil, err
	}
	nerr := 0
	var msgs []string
	packages.Visit(pkgs, nil, func(p *packages.Package) {
		for _, e := range p.Errors {
			nerr++
			if len(msgs) < 10 {
				msgs = append(msgs, e.Error())
			}
		}
	})
	if nerr > 0 {
		return nil, fmt.Errorf("harness/repository does not type-check (%d errors): %s", nerr, strings.Join(msgs, "; "))
	}
	prog, spkgs := ssautil.AllPackages(pkgs, ssa.InstantiateGenerics)
	prog.Build()
	P := &Program{prog: prog, overlay: ov}
	for _, sp := range spkgs {
		if sp == nil {
			continue
		}
		switch sp.Pkg.Path() {
		case libPath:
			P.lib = sp
		case libPath + "/cmd/jpgo":
			P.cli = sp
		}
	}
	if P.lib == nil {
		return nil, fmt.Errorf("package %s not loaded", libPath)
	}
	P.errorType = types.Universe.Lookup("error").Type().Underlying().(*types.Interface)
	return P, nil
}

func (P *Program) isHarnessFile(fn *ssa.Function) bool {
	f := fn
	for f.Parent() != nil {
		f = f.Parent()
	}
	pos := P.prog.Fset.Position(f.Pos())
	return strings.HasPrefix(filepath.Base(pos.Filename), "zz_verif")
}

// isSUT: function belongs to the code under test (repository code, not harness).
func (P *Program) isSUT(fn *ssa.Function) bool {
	if fn.Pkg == nil || (fn.Pkg != P.lib && fn.Pkg != P.cli) {
		return false
	}
	if fn.Synthetic != "" && fn.Name() == "init" {
		return true
	}
	return !P.isHarnessFile(fn)
}

func (P *Program) isSUTName(name string) bool {
	return strings.HasPrefix(name, libPath)
}

func (P *Program) stdFunc(pkg, name string) *ssa.Function {
	p := P.prog.ImportedPackage(pkg)
	if p == nil {
		panic(unsupported{"package not loaded: " + pkg})
	}
	f := p.Func(name)
	if f == nil {
		panic(unsupported{"no function " + pkg + "." + name})
	}
	return f
}

func (P *Program) harnessFunc(name string) *ssa.Function {
	return P.lib.Func(name)
}

func (P *Program) entryFunc(name string) *ssa.Function {
	if strings.HasPrefix(name, "jpgo.") && P.cli != nil {
		return P.cli.Func(strings.TrimPrefix(name, "jpgo."))
	}
	return P.lib.Func(name)
}

// tableName: uninterpreted-function name for a constant table; defined per
// Exec at level 0 (see initWorker).
func (P *Program) tableName(x *Exec, a Array) (string, bool) {
	sig := fmt.Sprintf("%d:", a.E[0].(Int).W) + tableSig(a)
	n, ok := x.tables[sig]
	return n, ok
}

func tableSig(a Array) string {
	var sb strings.Builder
	for _, e := range a.E {
		i := e.(Int)
		fmt.Fprintf(&sb, "%x,", i.uval())
	}
	return sb.String()
}
