package main

import (
	"os"
	"strconv"
	"strings"
)

func itoa(n int) string { return strconv.Itoa(n) }

func jobOf(entry string, props []string, kv ...string) *Job {
	p := map[string]string{}
	for i := 0; i+1 < len(kv); i += 2 {
		p[kv[i]] = kv[i+1]
	}
	j := newJob(entry, p)
	j.Props = props
	j.WitEvery = 40
	return j
}

var commonAssumptions = []string{
	"int is 64 bits; SSA built by golang.org/x/tools/go/ssa v0.29.0 from /repo's working tree is faithful to the compiler",
	"documents are JSON-shaped Go values as encoding/json produces them (finite float64, valid UTF-8 strings, non-nil []interface{} / map[string]interface{})",
	"stubbed/modelled standard-library functions (fmt, strconv.Quote*, json.Marshal, bytes.Buffer, strings.Replace/Contains/Join, reflect subset, math.Abs/Ceil/Floor) behave as documented; Go models are validated differentially in setup",
	"z3 4.8.12 answers are sound; any unknown/timeout/(error line makes the run inconclusive (exit 2), never a pass",
}

var specs = map[string]*CheckSpec{}

func init() {
	specs["C08"] = &CheckSpec{Prop: "C08", Level: "model_checking", Panics: true,
		Jobs: func(tier string) []*Job {
			L := 6
			if tier == "thorough" {
				L = 12
			}
			j := jobOf("VerifSliceKernel", []string{"C08"}, "L", itoa(L))
			j.Unwind = L + 2
			return []*Job{j}
		},
		Bounds: func(tier string) map[string]interface{} {
			L := 6
			if tier == "thorough" {
				L = 12
			}
			return map[string]interface{}{"array_length": "0.." + itoa(L), "start_stop_step": "free 64-bit two's-complement ints, each present or absent", "loop_unwind": L + 2}
		},
		Assumptions: commonAssumptions,
		Outside:     []string{"arrays longer than the bound", "integers that do not fit int (rejected by the parser before evaluation)"},
		Explain:     "bounded symbolic model checking of slice()/computeSliceParams()/capSlice() against Python slicing semantics",
	}
}

// obligationOnly: properties that reuse the evaluation templates for their
// implicit obligations only (no panic, frame, JSON invariant); the value /
// error-ness comparison with the oracle is not theirs and must stay inactive.
var obligationOnly = map[string]bool{"C05": true, "C06": true, "C12": true, "C16": true}

func evalJobs(prop string, ts []tmpl, depth, W, S int, keys []string) []*Job {
	var out []*Job
	if e := os.Getenv("VERIF_XP"); e != "" { // experiment: "depth,W,S,nkeys"
		f := strings.Split(e, ",")
		depth, _ = strconv.Atoi(f[0])
		W, _ = strconv.Atoi(f[1])
		S, _ = strconv.Atoi(f[2])
		nk, _ := strconv.Atoi(f[3])
		keys = []string{"a", "b", "", "é", "c"}[:nk]
	}
	for _, t := range ts {
		j := t.job(prop, depth)
		if obligationOnly[prop] {
			j.Params["prop"] = "ORACLE-NOT-CLAIMED-HERE"
		}
		j.W, j.S, j.Keys = W, S, keys
		j.WitEvery = 60
		out = append(out, j)
	}
	return out
}

func evalBounds(tier string, fam string, n int, depth, W, S int, keys []string) map[string]interface{} {
	return map[string]interface{}{"template_family": fam, "templates": n, "document_depth": depth, "max_array_length": W,
		"max_string_bytes": S, "object_key_universe": keys, "integers_in_expression": "free 64-bit",
		"numbers_in_document": "all finite float64", "loop_unwind_per_activation": 64}
}

// evalCfg: document bounds of one tier of an evaluation-family check.
type evalCfg struct {
	d, w, s int
	keys    []string
	inner   []string // key universe of nested objects (nil: same as keys)
}

func init() {
	ab := []string{"a", "b"}
	abe := []string{"a", "b", ""}
	abeu := []string{"a", "b", "", "é"}
	mk := func(prop string, fam func(string) []tmpl, famName string, q, t evalCfg, explain string, outside []string) {
		cfg := func(tier string) evalCfg {
			if tier == "thorough" {
				return t
			}
			return q
		}
		specs[prop] = &CheckSpec{Prop: prop, Level: "model_checking",
			Jobs: func(tier string) []*Job {
				c := cfg(tier)
				js := evalJobs(prop, fam(tier), c.d, c.w, c.s, c.keys)
				for _, j := range js {
					j.InnerKeys = c.inner
				}
				return js
			},
			Bounds: func(tier string) map[string]interface{} {
				c := cfg(tier)
				b := evalBounds(tier, famName, len(fam(tier)), c.d, c.w, c.s, c.keys)
				if c.inner != nil {
					b["nested_object_key_universe"] = c.inner
				}
				return b
			},
			Assumptions: commonAssumptions, Outside: outside, Explain: explain,
		}
	}
	outs := []string{"expressions outside the enumerated template family (only their integers and the documents are solver variables)",
		"documents deeper / arrays longer / strings longer than the bounds", "Go-struct documents (C18)"}
	// thorough bounds are the deepest that ran to completion on the unchanged tree (DESIGN 0.8)
	mk("C01", familyCore, "CORE", evalCfg{2, 2, 1, abe, nil}, evalCfg{4, 4, 2, abeu, ab},
		"public Search on core-fragment templates vs. the specification evaluator, for every document and index in the bounds", outs)
	mk("C02", familyProj, "PROJ", evalCfg{2, 2, 1, ab, nil}, evalCfg{2, 2, 2, ab, nil},
		"public Search on projection templates vs. the specification evaluator (object wildcards compared as multisets, every member order explored)", outs)
	mk("C09", familyFunc, "FUNC", evalCfg{2, 3, 1, ab, nil}, evalCfg{2, 4, 2, abe, nil},
		"every built-in on every argument tuple over two lazy document members and an expression reference, vs. the function specification (value and error-ness)", outs)
	mk("C10", familyFunc, "FUNC", evalCfg{2, 3, 1, ab, nil}, evalCfg{2, 4, 2, abe, nil},
		"every built-in on every argument tuple incl. wrong arity and expression references: an ill-typed call must be an error, never a value, never a panic", outs)
	specs["C10"].Panics = true
	mk("C11", familyCtx, "CTX", evalCfg{2, 2, 1, ab, nil}, evalCfg{3, 3, 2, abe, nil},
		"an erroring sub-expression in every strict (and every non-strict) position of every construct: Search errs iff the specification says the error is reached", outs)
	for _, p := range []string{"C09", "C10"} {
		sp := specs[p]
		inner := sp.Jobs
		sp.Jobs = func(tier string) []*Job {
			js := inner(tier)
			for _, j := range js {
				j.NumBound = 1e30
			}
			return js
		}
		sp.Outside = append(append([]string{}, sp.Outside...), "numbers larger than 1e30 in magnitude (sums are then finite by construction)")
	}
	for _, p := range []string{"C10", "C11"} {
		sp := specs[p]
		inner := sp.Jobs
		sp.Jobs = func(tier string) []*Job {
			js := inner(tier)
			for _, j := range js {
				j.Params["onlyerr"] = "1"
			}
			return js
		}
	}
	mk("C07", familyBool, "BOOL", evalCfg{2, 2, 1, abe, nil}, evalCfg{2, 2, 2, abe, nil},
		"truthiness, logical operators and comparators vs. the specification, all finite doubles and strings in bounds", outs)
}

func cmdTemplates(args []string) {
	fams := map[string]func(string) []tmpl{"core": familyCore, "proj": familyProj, "bool": familyBool, "prec": familyPrec, "func": familyFunc, "ctx": familyCtx}
	tier := "quick"
	if len(args) > 1 {
		tier = args[1]
	}
	ts := fams[args[0]](tier)
	for _, t := range ts {
		println(t.text, "  =>  ", t.spec, " mode", t.mode, "ints", t.ints)
	}
	println(len(ts), "templates")
}

func parseJobs(props []string, tier string) []*Job {
	var out []*Job
	nmax := 3
	if tier == "thorough" {
		nmax = 4
	}
	for n := 0; n <= nmax; n++ {
		j := jobOf("VerifParse", props, "n", itoa(n))
		j.WitEvery = 97
		out = append(out, j)
	}
	// longer sentences over sub-alphabets (see h_parse.go verifSymTokens)
	sub := map[int][2]int{1: {5, 7}, 2: {6, 9}, 3: {5, 7}, 4: {5, 7}, 5: {6, 7}}
	for _, a := range []int{1, 2, 3, 4, 5} {
		lim := sub[a][0]
		if tier == "thorough" {
			lim = sub[a][1]
		}
		for n := nmax + 1; n <= lim; n++ {
			j := jobOf("VerifParse", props, "n", itoa(n), "alpha", itoa(a))
			j.WitEvery = 197
			out = append(out, j)
		}
	}
	return out
}

func lexJobs(props []string, entry string, tier string) []*Job {
	var out []*Job
	nmax := 3
	if tier == "thorough" {
		nmax = 4
	}
	for n := 0; n <= nmax; n++ {
		j := jobOf(entry, props, "N", itoa(n))
		j.WitEvery = 97
		j.Unwind = 3*n + 16
		out = append(out, j)
	}
	return out
}

// sandwichJobs: Compile on concrete-prefix + N symbolic bytes + concrete-suffix.
func sandwichJobs(props []string, tier string, grammar bool) []*Job {
	type sw struct {
		pre, post string
		nq, nt    int
	}
	sws := []sw{{"\"", "\"", 3, 4}, {"'", "'", 3, 4}, {"`", "`", 3, 4}, {"a[", "]", 2, 3}, {"a.", "", 2, 3}, {"f(", ")", 2, 3}, {"{a:", "}", 2, 3},
		{"a[?", "]", 2, 3}, {"[", "]", 2, 3}, {"a ", " b", 2, 3}, {"`\"", "\"`", 2, 3}, {"\"\\", "\"", 3, 4}}
	var out []*Job
	for _, s := range sws {
		n := s.nq
		if tier == "thorough" {
			n = s.nt
		}
		j := jobOf("VerifCompile", props, "N", itoa(n), "pre", s.pre, "post", s.post)
		if grammar {
			j.Params["grammar"] = "1"
		}
		j.Unwind = 96
		j.WitEvery = 97
		out = append(out, j)
	}
	return out
}

func parseBounds(tier string) map[string]interface{} {
	if tier == "thorough" {
		return map[string]interface{}{"tokens_full_alphabet": "n <= 4 (all 30 token types symbolic)", "tokens_sub_alphabets": "brackets/slices n<=7, hash n<=9, calls n<=7, operators n<=7",
			"expression_bytes": "N <= 4 arbitrary bytes (Compile, tokenize); plus 3-4 symbolic bytes between 12 concrete contexts", "number_payload": "2 symbolic characters (-|digit)digit"}
	}
	return map[string]interface{}{"tokens_full_alphabet": "n <= 3 (all 30 token types symbolic)", "tokens_sub_alphabets": "brackets/slices n<=5, hash n<=6, calls n<=5, operators n<=5",
		"expression_bytes": "N <= 3 arbitrary bytes (Compile, tokenize); plus 2-3 symbolic bytes between 12 concrete contexts (inside quotes, backticks, brackets, calls, hashes, filters)", "number_payload": "2 symbolic characters (-|digit)digit"}
}

func init() {
	parseOutside := []string{"token sequences longer than the bounds", "expressions longer than N bytes at byte level", "integers that do not fit int64 (grammatical, rejected: implementation limit)"}
	specs["C04"] = &CheckSpec{Prop: "C04", Level: "model_checking",
		Jobs: func(tier string) []*Job {
			cj := lexJobs([]string{"C04"}, "VerifCompile", tier)
			for _, j := range cj {
				j.Params["grammar"] = "1"
				j.Unwind = 64
			}
			cj = append(cj, sandwichJobs([]string{"C04"}, tier, true)...)
			return append(parseJobs([]string{"C04"}, tier), cj...)
		},
		Bounds: parseBounds, Assumptions: commonAssumptions, Outside: parseOutside,
		Explain: "the real Parser.Parse on symbolic token sequences: accepted iff the CYK circuit of the JMESPath grammar accepts, and every accepted AST is well formed; Compile on symbolic bytes",
	}
	specs["C03"] = &CheckSpec{Prop: "C03", Level: "model_checking",
		Jobs: func(tier string) []*Job {
			js := parseJobs([]string{"C03"}, tier)
			pj := evalJobs("C03", familyPrec(tier), 2, 1, 1, []string{"a", "b", "c", "d"})
			for _, j := range pj {
				j.InnerKeys = []string{"b", "c"}
			}
			js = append(js, pj...)
			return js
		},
		Bounds: parseBounds, Assumptions: commonAssumptions, Outside: parseOutside,
		Explain: "the AST of every accepted symbolic token sequence equals the AST of a reference parser written from the precedence table; unparenthesised operator mixes evaluate like their specified grouping on every document",
	}
	specs["C17"] = &CheckSpec{Prop: "C17", Level: "model_checking", Panics: true,
		Jobs: func(tier string) []*Job {
			js := lexJobs([]string{"C17"}, "VerifCompile", tier)
			js = append(js, sandwichJobs([]string{"C17"}, tier, false)...)
			js = append(js, lexJobs([]string{"C17"}, "VerifLex", tier)...)
			return append(js, parseJobs([]string{"C17"}, tier)...)
		},
		Bounds: parseBounds, Assumptions: commonAssumptions, Outside: parseOutside,
		Explain: "Compile/MustCompile result contract, SyntaxError fields, caret rendering on symbolic bytes; parser error offsets are token positions on symbolic token sequences",
	}
	specs["C05"] = &CheckSpec{Prop: "C05", Level: "model_checking", Panics: true,
		Jobs: func(tier string) []*Job {
			js := lexJobs([]string{"C05"}, "VerifLex", tier)
			js = append(js, lexJobs([]string{"C05"}, "VerifCompile", tier)...)
			js = append(js, sandwichJobs([]string{"C05"}, tier, false)...)
			js = append(js, parseJobs([]string{"C05"}, tier)...)
			for _, sw := range [][2]string{{"reverse('", "')"}, {"length('", "')"}, {"to_number('", "')"}, {"contains('", "', 'a')"}, {"starts_with('a", "', 'a')"},
				{"'", "'"}, {"\"", "\""}, {"sort(['", "', 'b'])"}, {"join('", "', ['a', 'b'])"}, {"max(['a', '", "'])"}, {"to_string('", "')"}, {"'", "' == 'a'"}, {"'", "' < 'a'"}} {
				nn := 2
				if tier == "thorough" {
					nn = 3
				}
				j := jobOf("VerifSearchBytes", []string{"C05"}, "pre", sw[0], "post", sw[1], "N", itoa(nn))
				j.Unwind = 96
				j.W, j.S = 1, 1
				js = append(js, j)
			}
			L := 6
			if tier == "thorough" {
				L = 12
			}
			sk := jobOf("VerifSliceKernel", []string{"C05"}, "L", itoa(L))
			sk.Unwind = L + 2
			js = append(js, sk)
			keys := []string{"a", "b"}
			js = append(js, evalJobs("C05", familyCore(tier), 2, 2, 1, keys)...)
			js = append(js, evalJobs("C05", familyProj(tier), 2, 2, 1, keys)...)
			js = append(js, evalJobs("C05", familyFunc(tier), 2, 3, 1, keys)...)
			js = append(js, evalJobs("C05", familyCtx(tier), 2, 2, 1, keys)...)
			js = append(js, evalJobs("C05", familyBool("quick"), 2, 2, 1, keys)...)
			return js
		},
		Bounds: func(tier string) map[string]interface{} {
			b := parseBounds(tier)
			b["evaluation"] = "template families CORE, PROJ, FUNC, CTX, BOOL on documents of depth 2, arrays <= 2 (3 for functions), free 64-bit integers"
			b["loop_budget"] = "every loop: at most max(64, 2*len(expression)+16) iterations per activation (lexer: 3N+16); recursion depth 400; exceeding it is a reported failure"
			return b
		},
		Assumptions: commonAssumptions,
		Outside: []string{"expressions longer than the byte/token bounds (the property mentions 64 KiB)", "stack exhaustion on deeply nested input", "panics inside stubbed standard-library calls other than their documented ones", "time/memory beyond the per-loop budgets"},
		Explain: "the implicit obligations of every harness: no panic site reachable (bounds, nil, type assertion, uncomparable ==, division, explicit panic) and no loop beyond its budget, over symbolic bytes, token sequences, integers and documents",
	}
}

// frameJobs: families with their own array bound (functions 3, the rest 2).
func frameJobs(prop string, tier string) []*Job {
	keys := []string{"a", "b"}
	if tier == "thorough" {
		js := evalJobs(prop, frameFuncTemplates(tier), 2, 4, 2, []string{"a", "b", ""})
		js = append(js, evalJobs(prop, frameOtherTemplates(tier), 2, 2, 2, keys)...)
		return js
	}
	js := evalJobs(prop, frameFuncTemplates(tier), 2, 3, 1, keys)
	js = append(js, evalJobs(prop, frameOtherTemplates(tier), 2, 2, 1, keys)...)
	return js
}

func frameBounds(tier, fam string, n int) map[string]interface{} {
	if tier == "thorough" {
		b := evalBounds(tier, fam, n, 2, 4, 2, []string{"a", "b", ""})
		b["max_array_length"] = "4 for function templates, 2 for projection/context/core templates (object keys a, b there)"
		return b
	}
	b := evalBounds(tier, fam, n, 2, 3, 1, []string{"a", "b"})
	b["max_array_length"] = "3 for function templates, 2 for projection/context/core templates"
	return b
}

func frameFamilies(tier string) []tmpl {
	return append(frameFuncTemplates(tier), frameOtherTemplates(tier)...)
}

func frameOtherTemplates(tier string) []tmpl {
	var ts []tmpl
	ts = append(ts, familyProj("quick")...)
	ts = append(ts, familyCtx("quick")...)
	core := familyCore("quick")
	for i, t := range core {
		if i%3 == 0 || tier == "thorough" {
			ts = append(ts, t)
		}
	}
	return dedupe(ts)
}

func frameFuncTemplates(tier string) []tmpl {
	ts := familyFunc(tier)
	// literals held by the expression, fed to reordering functions
	lit := hLit(`[3,1,2]`)
	ts = append(ts, call("sort_by", lit, ref(hCur())), call("sort", lit), call("reverse", lit), call("max_by", lit, ref(hCur())),
		pipe(lit, hList(buildChain(hCur(), sIndex("0")), buildChain(hParen(call("sort_by", hCur(), ref(hCur()))), sIndex("0")))),
		call("sort_by", hField("a"), ref(hField("b"))), call("to_array", hField("a")), call("merge", hField("a"), hField("b")),
		buildChain(hField("a"), sFlat()), buildChain(hLit(`[[1],[2]]`), sFlat()), call("map", ref(hCur()), lit), call("not_null", hField("a"), lit))
	return dedupe(ts)
}

func init() {
	frameAssume := append(append([]string{}, commonAssumptions...), "document arrays carry one spare slot of capacity (as json.Unmarshal's do), so an append into the caller's backing array is a visible write")
	specs["C06"] = &CheckSpec{Prop: "C06", Level: "model_checking", Frame: true,
		Jobs: func(tier string) []*Job {
			return frameJobs("C06", tier)
		},
		Bounds: func(tier string) map[string]interface{} {
			return frameBounds(tier, "FUNC+PROJ+CTX+CORE/3+literal-reordering", len(frameFamilies(tier)))
		},
		Assumptions: frameAssume,
		Outside:     []string{"writes performed inside stubbed standard-library calls (sort.Stable is interpreted, so its swaps are seen)", "templates outside the families", "documents beyond the bounds"},
		Explain:     "frame obligation: between the start and the end of Search no store, map update, in-place append or copy targets memory that existed before the call (success and error paths alike)",
	}
	specs["C12"] = &CheckSpec{Prop: "C12", Level: "other", Frame: true,
		Jobs: func(tier string) []*Job {
			var js []*Job
			for wi, fam := range [][]tmpl{frameFuncTemplates(tier), frameOtherTemplates(tier)} {
				for _, t := range fam {
					j := jobOf("VerifCompiled", []string{"C12"}, "expr", t.text, "depth", "2")
					j.W, j.S, j.Keys = 3-wi, 1, []string{"a", "b"}
					j.Unwind = 64 + 4*len(t.text)
					js = append(js, j)
				}
			}
			for _, j := range js {
				j.LockedWritesOK = true
			}
			for _, e := range []string{"a", "p.a", "s[*].a", "q[*].n", "[a, n]", "{x: a, y: p.a}", "s[?a].n", "l[0]", "p || a", "length(s)", "q[]", "s[0].p.a", "sort_by(s, &n)", "s[*].[a, n]"} {
				for _, ptr := range []string{"0", "1"} {
					u := ""
					for _, c := range "anpsqlf" {
						if strings.ContainsRune(e, c) {
							u += string(c)
						}
					}
					j := jobOf("VerifStructCompiled", []string{"C12"}, "expr", e, "use", u, "ptr", ptr)
					j.Unwind = 64 + 4*len(e)
					j.NumBound = 1e30
					j.LockedWritesOK = true
					js = append(js, j)
				}
			}
			one := frameJobs("C12", tier)
			for _, j := range one {
				j.LockedWritesOK = true
			}
			for i, j := range one {
				if i%4 == 0 || tier == "thorough" {
					js = append(js, j)
				}
			}
			return js
		},
		Bounds: func(tier string) map[string]interface{} {
			b := frameBounds("quick", "as C06, entered through (*JMESPath).Search on a compiled expression (arrays <= 3/2, both tiers) and through the one-shot Search", len(frameFamilies(tier)))
			if tier == "thorough" {
				b["one_shot_search"] = "all templates, arrays <= 4 (functions) / 2, strings <= 2 bytes"
			} else {
				b["one_shot_search"] = "every fourth template"
			}
			return b
		},
		Assumptions: append(append([]string{}, frameAssume...), "Go memory model: calls that only read shared locations and write only their own allocations have no conflicting accesses under any schedule (paper step of the reduction)", "stubbed standard-library functions are goroutine-safe"),
		Outside:     []string{"interleavings are NOT enumerated: the property is reduced to the sequential frame obligation", "thread-safety of stubbed stdlib internals"},
		Explain:     "C12 is decided through a reduction: the solver-checked premise is that during any Search call (compiled or one-shot) no store targets memory that existed before the call (the shared AST, the interpreter and its function table, package-level variables, the document); given that premise concurrent calls have no conflicting accesses and each call reads what it would read alone",
	}
	histT := func(tier string) []tmpl {
		lit := hLit(`[3,1,2]`)
		ts := []tmpl{pipe(lit, hList(buildChain(hCur(), sIndex("0")), buildChain(hParen(call("sort_by", hCur(), ref(hCur()))), sIndex("0")))),
			call("sort_by", lit, ref(hCur())), call("sort_by", hField("a"), ref(hField("b"))), call("sort_by", hField("a"), ref(hCur())),
			call("sort", hField("a")), call("reverse", hField("a")), buildChain(hField("a"), sFlat()), buildChain(hNone(), sVproj()),
			call("keys", hCur()), call("values", hCur()), buildChain(hField("a"), sProj(), sField("b")), call("merge", hCur(), hLit(`{"a":1}`)),
			call("to_array", hField("a")), buildChain(hField("a"), sSlice("_", "_", "-1")), hField("a"), call("abs", hField("a")),
			hList(hField("a"), hLit("[1]")), call("max_by", hField("a"), ref(hField("b"))), call("map", ref(hField("a")), hCur()),
			call("not_null", hField("a"), lit), tOr(hField("a"), lit), call("sort_by", call("to_array", hField("a")), ref(hCur())),
			hList(call("not_null", hField("a")), call("not_null", hField("a"), hField("b"))), call("merge", hLit(`{"z":1}`), hCur())}
		if tier == "thorough" {
			ts = append(ts, hList(call("merge", hField("a")), call("merge", hField("a"), hField("b"))),
				tOr(tAnd(hField("a"), call("not_null", hField("a"), hField("b"), hCur())), call("not_null", hField("b"))))
		}
		return dedupe(ts)
	}
	// thorough only: more templates for the compiled-expression frame check
	// (whole three-search histories over them did not finish in 60 minutes)
	compiledOnly := func(tier string) []tmpl {
		if tier != "thorough" {
			return nil
		}
		return dedupe(append(append([]tmpl{}, familyFunc("quick")...), familyProj("quick")[:80]...))
	}
	specs["C13"] = &CheckSpec{Prop: "C13", Level: "model_checking", Frame: true,
		Jobs: func(tier string) []*Job {
			var js []*Job
			for _, t := range histT(tier) {
				j := jobOf("VerifHistory", []string{"C13"}, "expr", t.text, "depth", "2", "mode", itoa(t.mode))
				j.W, j.S, j.Keys = 2, 1, []string{"a", "b"}
				j.Unwind = 64 + 4*len(t.text)
				js = append(js, j)
				j2 := jobOf("VerifCompiled", []string{"C13"}, "expr", t.text, "depth", "2")
				j2.W, j2.S, j2.Keys = 3, 1, []string{"a", "b"}
				j2.Unwind = 64 + 4*len(t.text)
				js = append(js, j2)
			}
			for _, t := range compiledOnly(tier) {
				j2 := jobOf("VerifCompiled", []string{"C13"}, "expr", t.text, "depth", "2")
				j2.W, j2.S, j2.Keys = 3, 1, []string{"a", "b"}
				if strings.ContainsAny(t.text, "[*") {
					j2.W = 2 // flattening / projecting arrays of 3 arrays of 3 does not finish
				}
				j2.Unwind = 64 + 4*len(t.text)
				js = append(js, j2)
			}
			nmax := 2
			if tier == "thorough" {
				nmax = 3
			}
			for _, first := range []string{"'it\\'s", "a == 'x\\'", "a.b", "\"un\\\"closed"} {
				for _, sw := range [][2]string{{"'", "'"}, {"", ""}, {"a == '", "'"}} {
					nn := 1
					if sw[0] == "" {
						nn = 3
					}
					j := jobOf("VerifSearchHistory", []string{"C13"}, "first", first, "pre", sw[0], "post", sw[1], "N", itoa(nn))
					j.Unwind = 96
					js = append(js, j)
				}
			}
			firsts := []string{"a.b", "a[", "'unterminated", "\"", "a || ", "`[1,2]`", "foo(", "'it\\'s'", "a[0:1:2:3]", "'it\\'s", "a == 'x\\'", "\"un\\\"closed", "`[1,"}
			for fi, first := range firsts {
				lim := nmax
				// one more symbolic byte after the firsts that leave lexer state behind (a raw string needs 3 bytes)
				// (quick tier only: four arbitrary bytes take more than ten minutes per first)
				if (fi == 0 || fi == 9 || fi == 10) && tier != "thorough" {
					lim = nmax + 1
				}
				for n := 0; n <= lim; n++ {
					j := jobOf("VerifParserReuse", []string{"C13"}, "first", first, "N", itoa(n))
					j.Unwind = 64
					js = append(js, j)
				}
			}
			return js
		},
		Bounds: func(tier string) map[string]interface{} {
			return map[string]interface{}{"history_templates": len(histT(tier)), "compiled_frame_only_templates": len(compiledOnly(tier)), "documents": "two independent lazy documents, depth 2, arrays <= 2", "parser_reuse": "first expression from 13 fixed texts (incl. failing ones), then arbitrary index/expression/tokens fields, second expression N <= 2 arbitrary bytes (3 after the firsts that leave lexer state behind) in the quick tier, N <= 3 for all in the thorough tier"}
		},
		Assumptions: commonAssumptions,
		Outside:     []string{"histories longer than three searches (covered by the frame obligation: a search that writes nothing pre-existing cannot influence a later one)", "second expressions longer than N bytes"},
		Explain:     "three-search histories on compiled expressions vs one-shot Search and a fresh Compile; frame obligation on the compiled AST; parser reuse from an arbitrary pre-state vs a fresh parser",
	}
}

func init() {
	pipeParts := func(tier string) ([]tmpl, []tmpl) {
		as := []tmpl{hField("a"), hCur(), buildChain(hField("a"), sField("b")), buildChain(hField("a"), sProj(), sField("b")), buildChain(hNone(), sVproj()),
			buildChain(hField("a"), sFlat()), hList(hField("a"), hField("b")), hHash("a", hField("b")), hLit(`[1,[2],{"a":3}]`), errCalls[2],
			buildChain(hField("a"), sFilter(hField("b"))), tOr(hField("a"), hField("b")), buildChain(hNone(), sIndex("0")), call("to_array", hCur())}
		bs := []tmpl{hField("a"), hCur(), buildChain(hNone(), sIndex("0")), buildChain(hNone(), sProj(), sField("a")), buildChain(hNone(), sFlat()),
			buildChain(hNone(), sVproj()), hList(hCur(), hField("a")), call("type", hCur()), call("abs", hCur()), tNot(hCur()),
			buildChain(hNone(), sFilter(hField("a"))), buildChain(hNone(), sSlice("1", "_", "_")), call("length", hCur()), tOr(hField("a"), hCur())}
		bs = append([]tmpl{hRaw("v"), hLit(`"w"`)}, bs...)
		if tier != "thorough" {
			return as[:10], bs[:12]
		}
		return as, bs
	}
	substCtx := func() [][2]string {
		// context text with %s for the hole
		return [][2]string{{"[%s, a]", "list"}, {"{k: %s}", "hash"}, {"%s || a", "or-left"}, {"a || %s", "or-right"}, {"a && %s", "and-right"},
			{"%s == a", "cmp"}, {"!%s", "not"}, {"%s | a", "pipe-left"}, {"type(%s)", "arg"}, {"(%s).a", "sub-left"}, {"(%s)[0]", "index-left"},
			{"(%s)[*].a", "proj-left"}, {"not_null(a, %s)", "arg2"}, {"(%s)[]", "flat-left"}, {"(%s)[?a]", "filter-left"},
			{"[%s, a, b]", "list-then-reread"}, {"[%s, @]", "list-then-root"}, {"{x: %s, y: a}", "hash-then-reread"}}
	}
	substEs := func(tier string) []tmpl {
		es := []tmpl{hField("a"), buildChain(hField("a"), sField("b")), buildChain(hField("a"), sIndex("0")), hList(hField("a"), hField("b")),
			tOr(hField("a"), hField("b")), hLit("1"), call("merge", hField("a"), hField("b")), call("sort_by", hField("a"), ref(hCur())),
			call("type", hField("a")), buildChain(hField("a"), sProj(), sField("b")), hCur(), call("reverse", hField("a")), call("to_array", hField("a"))}
		if tier != "thorough" {
			return es[:8]
		}
		return es
	}
	specs["C15"] = &CheckSpec{Prop: "C15", Level: "model_checking",
		Jobs: func(tier string) []*Job {
			var js []*Job
			as, bs := pipeParts(tier)
			for _, a := range as {
				for _, b := range bs {
					m := 0
					if a.mode != 0 || b.mode != 0 {
						m = 2
					}
					at := a.text
					if a.prec != 0 && a.prec < precChain {
						at = "(" + at + ")"
					}
					bt := b.text
					if b.prec != 0 && b.prec < precChain {
						bt = "(" + bt + ")"
					}
					j := jobOf("VerifPipeLaw", []string{"C15"}, "a", at, "b", bt, "mode", itoa(m), "depth", "2", "first", "'it\\'s")
					j.W, j.S, j.Keys = 2, 1, []string{"a", "b"}
					j.Unwind = 64 + 4*(len(at)+len(bt))
					j.WitEvery = 60
					js = append(js, j)
				}
			}
			hole := "`\"\\u0000HOLE\"`"
			for _, c := range substCtx() {
				for _, e := range substEs(tier) {
					m := 0
					if e.mode != 0 {
						m = 2
					}
					et := e.text
					if e.prec != 0 {
						et = "(" + et + ")"
					}
					j := jobOf("VerifSubst", []string{"C15"}, "ctxe", strings.Replace(c[0], "%s", et, 1), "ctxh", strings.Replace(c[0], "%s", hole, 1), "e", e.text, "mode", itoa(m), "depth", "2")
					j.W, j.S, j.Keys = 2, 1, []string{"a", "b"}
					j.Unwind = 64 + 4*(len(c[0])+len(et)+20)
					j.WitEvery = 60
					js = append(js, j)
				}
			}
			return js
		},
		Bounds: func(tier string) map[string]interface{} {
			as, bs := pipeParts(tier)
			return map[string]interface{}{"pipe_pairs": len(as) * len(bs), "substitution_contexts": len(substCtx()), "substituted_expressions": len(substEs(tier)), "document_depth": 2, "max_array_length": 2}
		},
		Assumptions: commonAssumptions,
		Outside:     []string{"A, B, contexts outside the enumerated sets", "documents beyond the bounds", "pairs whose result order depends on object iteration: only error-ness is compared"},
		Explain:     "both sides of each law are the real code on the same symbolic document: Search('A | B', d) vs Search(B, Search(A, d)); C[E] vs C with the literal of Search(E, d) patched into the parsed AST",
	}
	specs["C16"] = &CheckSpec{Prop: "C16", Level: "model_checking",
		Jobs: func(tier string) []*Job {
			keys := []string{"a", "b"}
			var js []*Job
			if tier == "thorough" {
				abe := []string{"a", "b", ""}
				js = evalJobs("C16", familyFunc(tier), 2, 4, 2, abe)
				js = append(js, evalJobs("C16", familyProj("quick"), 2, 2, 2, keys)...)
				js = append(js, evalJobs("C16", familyCore(tier), 3, 3, 2, abe)...)
				js = append(js, evalJobs("C16", familyBool(tier), 2, 2, 2, keys)...)
			} else {
				js = evalJobs("C16", familyFunc(tier), 2, 3, 1, keys)
				js = append(js, evalJobs("C16", familyProj("quick"), 2, 2, 1, keys)...)
				js = append(js, evalJobs("C16", familyCore("quick"), 2, 2, 1, keys)...)
				js = append(js, evalJobs("C16", familyBool("quick"), 2, 2, 1, keys)...)
			}
			for _, j := range js {
				j.NumBound = 1e30
				j.Props = []string{"C16"}
			}
			return js
		},
		Bounds: func(tier string) map[string]interface{} {
			b := evalBounds(tier, "FUNC+PROJ+CORE+BOOL", len(familyFunc(tier))+len(familyProj("quick"))+len(familyCore("quick"))+len(familyBool("quick")), 2, 3, 1, []string{"a", "b"})
			if tier == "thorough" {
				b = evalBounds(tier, "FUNC+PROJ+CORE+BOOL", len(familyFunc(tier))+len(familyProj("quick"))+len(familyCore(tier))+len(familyBool(tier)), 2, 4, 2, []string{"a", "b", ""})
				b["max_array_length"] = "4 for function templates, 3 for core (depth 3), 2 for projection and boolean templates"
			}
			b["numbers_in_document"] = "finite float64 with |x| <= 1e30 (the property's 'moderate magnitude')"
			return b
		},
		Assumptions: commonAssumptions,
		Outside:     []string{"arithmetic over more than 3 numbers", "templates outside the families", "numbers above 1e30"},
		Explain:     "every successful result is walked by the JSON invariant (null, bool, finite float64, string, non-nil []interface{}, non-nil map[string]interface{}, recursively); untouched lazy parts of the input satisfy it by assumption",
	}
}

func init() {
	specs["C14"] = &CheckSpec{Prop: "C14", Level: "model_checking",
		Jobs: func(tier string) []*Job {
			S, N := 2, 3
			if tier == "thorough" {
				S, N = 4, 4
			}
			var js []*Job
			for s := 0; s <= S; s++ {
				// verifNondetString forks over lengths 0..S itself: one job per maximum keeps jobs small
			}
			mk := func(entry string, kv ...string) {
				j := jobOf(entry, []string{"C14"}, kv...)
				j.Unwind = 96
				j.WitEvery = 40
				js = append(js, j)
			}
			mk("VerifQuotedIdent", "S", itoa(S))
			mk("VerifRawString", "S", itoa(S+1))
			mk("VerifRawPair", "S", itoa(S))
			for shape := 0; shape <= 3; shape++ {
				mk("VerifLiteral", "S", itoa(S), "shape", itoa(shape))
			}
			for n := 0; n <= N; n++ {
				mk("VerifUnquoted", "N", itoa(n))
			}
			return js
		},
		Bounds: func(tier string) map[string]interface{} {
			if tier == "thorough" {
				return map[string]interface{}{"string_bytes": "0..4 symbolic bytes, valid UTF-8 (all 1-4 byte code point patterns, controls, quotes, backslashes, backticks)", "raw_bytes": "N <= 4 arbitrary bytes"}
			}
			return map[string]interface{}{"string_bytes": "0..2 symbolic bytes, valid UTF-8", "raw_bytes": "N <= 3 arbitrary bytes"}
		},
		Assumptions: append(append([]string{}, commonAssumptions...), "JSON string/value decoding inside the lexer and parser is a Go model of encoding/json validated differentially in setup (2.7M inputs)",
			"raw strings: a backslash directly before a quote or at the end of the string cannot be written and is excluded"),
		Outside: []string{"strings longer than the bound", "JSON numbers in literals beyond 3-digit integers (decimal conversion not modelled)"},
		Explain: "symbolic strings are spelled as quoted identifiers, raw strings and backtick literals by harness functions and pushed through the real lexer/parser/Search; unquoted identifiers by an SMT-level regular predicate; whitespace insertion at every token boundary",
	}
}

func init() {
	nav := []string{"a", "n", "p", "p.a", "p.n", "p.p", "s", "s[0]", "s[0].a", "s[-1].n", "s[*].a", "s[*]", "q", "q[0]", "q[0].a", "q[*].a", "q[*]", "q[]",
		"s[]", "l", "l[0]", "l[*]", "l[1:]", "s[1:].a", "s[?a].n", "s[?n > `0`].a", "q[?a]", "[a, n]", "{x: a, y: p.a}", "p || a", "p && a", "!p", "a || n",
		"s | [0]", "length(s)", "length(l)", "length(a)", "l[::-1]", "f[0]", "f[*]", "s[*].[a, n]", "q[*].n", "zz", "p.zz", "s[5]", "@.a", "[p]", "{k: p}",
		"l[990001:990002:990003]", "s[990001:990002:990003].a", "q[990001::990002]", "f[:990001:990002]", "l[990001]", "q[990001].a", "l[1:0:-1]", "l[-1:1]",
		"\"\"", "p.\"\"", "s[*].\"\"", "[q][]", "[q, s][]", "[l][]", "[s[0], p]", "[q][0][0]", "[[q]][][]",
		"q[0] || a", "!q[0]", "[q[0]]", "s[*].p", "q[?n > `0`].a", "s[::2].n", "q[1:]", "p.s", "p.l[0]", "a == p.a", "n < p.n", "s[0] == s[1]", "[s[0].a, q[0].a]"}
	funcs := []string{"contains(l, a)", "reverse(l)", "sort_by(s, &n)", "max_by(s, &n)", "min_by(s, &a)", "map(&a, s)", "join(a, l)", "sort(l)", "sort(f)",
		"max(f)", "sum(f)", "avg(f)", "to_array(l)", "not_null(p, a)", "type(s)", "type(p)", "type(q[0])", "keys(@)", "values(p)", "merge(p, p)", "to_string(l)",
		"to_string(p)", "length(q)", "contains(s, p)", "reverse(s)", "map(&n, q)", "sort_by(q, &n)", "not_null(q[0], a)", "to_number(p)", "abs(p)"}
	usesOf := func(e string) string {
		u := ""
		for _, c := range "anpsqlf" {
			if strings.ContainsRune(e, c) {
				u += string(c)
			}
		}
		// identifiers inside function names would over-approximate: harmless
		return u
	}
	specs["C18"] = &CheckSpec{Prop: "C18", Level: "model_checking", Panics: true,
		Jobs: func(tier string) []*Job {
			var js []*Job
			for _, ptr := range []string{"0", "1"} {
				for _, e := range nav {
					j := jobOf("VerifStruct", []string{"C18"}, "expr", e, "use", usesOf(e), "ptr", ptr, "cmp", "1", "ints", itoa(countInts(e)))
					j.Unwind = 64 + 4*len(e)
					j.NumBound = 1e30
					js = append(js, j)
				}
				for _, e := range funcs {
					u := usesOf(e)
					j := jobOf("VerifStruct", []string{"C18"}, "expr", e, "use", u, "ptr", ptr, "cmp", "0", "ints", "0")
					j.Unwind = 64 + 4*len(e)
					j.NumBound = 1e30
					if strings.Contains(e, "avg(") || strings.Contains(e, "sum(") {
						j.Solver = "cvc5"
					}
					js = append(js, j)
				}
			}
			if tier == "thorough" {
				for _, j := range js {
					j.Params["K"] = "5"
				}
			}
			for _, e := range []string{"[name, owner.name]", "[owner.name, name]", "[owner.name, kids[0].name, name]", "kids[*].name", "owner.age", "[kids[0].name, owner.name]"} {
				j := jobOf("VerifStructAnon", []string{"C18"}, "expr", e)
				j.Unwind = 64 + 4*len(e)
				js = append(js, j)
			}
			return js
		},
		Bounds: func(tier string) map[string]interface{} {
			return map[string]interface{}{"struct_type": "struct{A string; N float64; P *T; S []T; Q []*T; L []string; F []float64} by value and by pointer", "slices": map[string]string{"quick": "length 0..2", "thorough": "length 0..4"}[tier], "pointers": "nil or non-nil (solver-chosen)", "navigation_templates": len(nav), "function_templates": len(funcs)}
		},
		Assumptions: append(append([]string{}, commonAssumptions...), "reflect is a model implemented in the executor (ValueOf, TypeOf, Kind, Len, Index, Interface, IsNil, Elem, FieldByName, IsValid, DeepEqual) over its own typed values"),
		Outside:     []string{"struct shapes other than the harness type (embedded fields, maps with non-string keys, unexported fields)", "nil typed slices", "slices longer than 2 (quick) / 4 (thorough)"},
		Explain:     "Search on struct/pointer/typed-slice documents vs Search on the equivalent generic JSON image; every built-in applied to typed slices must not panic",
	}
}

func init() {
	redirect := map[string]string{
		"flag.Bool": "jpgo.verifFlagBool", "flag.String": "jpgo.verifFlagString", "flag.Parse": "jpgo.verifFlagParse", "flag.Args": "jpgo.verifFlagArgs",
		"flag.PrintDefaults": "jpgo.verifFlagPrintDefaults", "fmt.Fprintf": "jpgo.verifFprintf", "fmt.Fprintln": "jpgo.verifFprintln",
		"fmt.Println": "jpgo.verifPrintln", "fmt.Printf": "jpgo.verifPrintf", "io/ioutil.ReadFile": "jpgo.verifReadFile", "io/ioutil.ReadAll": "jpgo.verifReadAll",
		"os.ReadFile": "jpgo.verifReadFile", "io.ReadAll": "jpgo.verifReadAll",
		"encoding/json.Unmarshal": "jpgo.verifUnmarshal", "(*github.com/jmespath/go-jmespath.Parser).Parse": "jpgo.verifParserParse",
		"github.com/jmespath/go-jmespath.Search": "jpgo.verifLibSearch",
		"flag.NArg": "jpgo.verifFlagNArg", "flag.Arg": "jpgo.verifFlagArg", "(*os.File).Write": "jpgo.verifFileWrite", "(*os.File).WriteString": "jpgo.verifFileWriteString",
		"fmt.Fprint": "jpgo.verifFprint", "fmt.Print": "jpgo.verifPrint", "io.WriteString": "jpgo.verifIoWriteString",
		"os.Open": "jpgo.verifOsOpen", "(*os.File).Close": "jpgo.verifFileClose", "encoding/json.NewDecoder": "jpgo.verifNewDecoder",
		"(*encoding/json.Decoder).Decode": "jpgo.verifDecode", "bufio.NewReader": "jpgo.verifBufioNewReader",
	}
	specs["C19"] = &CheckSpec{Prop: "C19", Level: "model_checking", Panics: true,
		Jobs: func(tier string) []*Job {
			j := jobOf("jpgo.VerifRun", []string{"C19"})
			j.Redirect = redirect
			j.WitEvery = 1
			j.W, j.S = 1, 1
			return []*Job{j}
		},
		Bounds: func(tier string) map[string]interface{} {
			return map[string]interface{}{"scenarios": "every combination of: 0/1/2 positional arguments, -input given or not, read failure, invalid JSON, parse failure (SyntaxError or other), evaluation error; the document and the Search result are arbitrary (lazy) JSON values", "ast_flag": "off (the property is about searching)"}
		},
		Assumptions: []string{"the environment of run() is replaced by stubs: flag.*, ioutil.ReadFile/ReadAll, json.Unmarshal, Parser.Parse, jmespath.Search, json.MarshalIndent, fmt.Print*/Fprint* (each answers as the scenario dictates)",
			"native confirmation realises each scenario with real arguments, a real file or stdin, and captures the real stdout/stderr of run()", "json.MarshalIndent does not fail on JSON values"},
		Outside: []string{"the operating-system process (os.Exit is passed run()'s value by main, read from the source)", "flag's own parsing", "partial writes / closed stdout"},
		Explain: "symbolic execution of cmd/jpgo.run() over all environment outcomes: exit status 0 iff nothing failed, then stdout is exactly one line, the serialisation of the value the library's Search returned; otherwise nothing on stdout and a non-zero status",
	}
}
