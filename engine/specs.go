package main

import (
	"strconv"
)

func itoa(n int) string { return strconv.Itoa(n) }

func jobOf(entry string, props []string, kv ...string) *Job {
	p := map[string]string{}
	for i := 0; i+1 < len(kv); i += 2 {
		p[kv[i]] = kv[i+1]
	}
	j := newJob(entry, p)
	j.Props = props
	j.WitEvery = 40
	return j
}

var commonAssumptions = []string{
	"int is 64 bits; SSA built by golang.org/x/tools/go/ssa v0.29.0 from /repo's working tree is faithful to the compiler",
	"documents are JSON-shaped Go values as encoding/json produces them (finite float64, valid UTF-8 strings, non-nil []interface{} / map[string]interface{})",
	"stubbed/modelled standard-library functions (fmt, strconv.Quote*, json.Marshal, bytes.Buffer, strings.Replace/Contains/Join, reflect subset, math.Abs/Ceil/Floor) behave as documented; Go models are validated differentially in setup",
	"z3 4.8.12 answers are sound; any unknown/timeout/(error line makes the run inconclusive (exit 2), never a pass",
}

var specs = map[string]*CheckSpec{}

func init() {
	specs["C08"] = &CheckSpec{Prop: "C08", Level: "model_checking", Panics: true,
		Jobs: func(tier string) []*Job {
			L := 6
			if tier == "thorough" {
				L = 12
			}
			j := jobOf("VerifSliceKernel", []string{"C08"}, "L", itoa(L))
			j.Unwind = L + 2
			return []*Job{j}
		},
		Bounds: func(tier string) map[string]interface{} {
			L := 6
			if tier == "thorough" {
				L = 12
			}
			return map[string]interface{}{"array_length": "0.." + itoa(L), "start_stop_step": "free 64-bit two's-complement ints, each present or absent", "loop_unwind": L + 2}
		},
		Assumptions: commonAssumptions,
		Outside:     []string{"arrays longer than the bound", "integers that do not fit int (rejected by the parser before evaluation)"},
		Explain:     "bounded symbolic model checking of slice()/computeSliceParams()/capSlice() against Python slicing semantics",
	}
}
