package main

import (
	"strconv"
)

func itoa(n int) string { return strconv.Itoa(n) }

func jobOf(entry string, props []string, kv ...string) *Job {
	p := map[string]string{}
	for i := 0; i+1 < len(kv); i += 2 {
		p[kv[i]] = kv[i+1]
	}
	j := newJob(entry, p)
	j.Props = props
	j.WitEvery = 40
	return j
}

var commonAssumptions = []string{
	"int is 64 bits; SSA built by golang.org/x/tools/go/ssa v0.29.0 from /repo's working tree is faithful to the compiler",
	"documents are JSON-shaped Go values as encoding/json produces them (finite float64, valid UTF-8 strings, non-nil []interface{} / map[string]interface{})",
	"stubbed/modelled standard-library functions (fmt, strconv.Quote*, json.Marshal, bytes.Buffer, strings.Replace/Contains/Join, reflect subset, math.Abs/Ceil/Floor) behave as documented; Go models are validated differentially in setup",
	"z3 4.8.12 answers are sound; any unknown/timeout/(error line makes the run inconclusive (exit 2), never a pass",
}

var specs = map[string]*CheckSpec{}

func init() {
	specs["C08"] = &CheckSpec{Prop: "C08", Level: "model_checking", Panics: true,
		Jobs: func(tier string) []*Job {
			L := 6
			if tier == "thorough" {
				L = 12
			}
			j := jobOf("VerifSliceKernel", []string{"C08"}, "L", itoa(L))
			j.Unwind = L + 2
			return []*Job{j}
		},
		Bounds: func(tier string) map[string]interface{} {
			L := 6
			if tier == "thorough" {
				L = 12
			}
			return map[string]interface{}{"array_length": "0.." + itoa(L), "start_stop_step": "free 64-bit two's-complement ints, each present or absent", "loop_unwind": L + 2}
		},
		Assumptions: commonAssumptions,
		Outside:     []string{"arrays longer than the bound", "integers that do not fit int (rejected by the parser before evaluation)"},
		Explain:     "bounded symbolic model checking of slice()/computeSliceParams()/capSlice() against Python slicing semantics",
	}
}

func evalJobs(prop string, ts []tmpl, depth, W, S int, keys []string) []*Job {
	var out []*Job
	for _, t := range ts {
		j := t.job(prop, depth)
		j.W, j.S, j.Keys = W, S, keys
		j.WitEvery = 60
		out = append(out, j)
	}
	return out
}

func evalBounds(tier string, fam string, n int, depth, W, S int, keys []string) map[string]interface{} {
	return map[string]interface{}{"template_family": fam, "templates": n, "document_depth": depth, "max_array_length": W,
		"max_string_bytes": S, "object_key_universe": keys, "integers_in_expression": "free 64-bit",
		"numbers_in_document": "all finite float64", "loop_unwind_per_activation": 64}
}

func init() {
	keysQ := []string{"a", "b", ""}
	mk := func(prop string, fam func(string) []tmpl, famName string, dq, wq, dt, wt int, explain string, outside []string) {
		specs[prop] = &CheckSpec{Prop: prop, Level: "model_checking",
			Jobs: func(tier string) []*Job {
				if tier == "thorough" {
					return evalJobs(prop, fam(tier), dt, wt, 2, append(keysQ, "é"))
				}
				return evalJobs(prop, fam(tier), dq, wq, 1, keysQ)
			},
			Bounds: func(tier string) map[string]interface{} {
				if tier == "thorough" {
					return evalBounds(tier, famName, len(fam(tier)), dt, wt, 2, append(keysQ, "é"))
				}
				return evalBounds(tier, famName, len(fam(tier)), dq, wq, 1, keysQ)
			},
			Assumptions: commonAssumptions, Outside: outside, Explain: explain,
		}
	}
	mk2 := func(prop string, fam func(string) []tmpl, famName string, dq, wq, dt, wt int, explain string, outside []string) {
		mk(prop, fam, famName, dq, wq, dt, wt, explain, outside)
		sp := specs[prop]
		sp.Jobs = func(tier string) []*Job {
			if tier == "thorough" {
				return evalJobs(prop, fam(tier), dt, wt, 2, keysQ)
			}
			return evalJobs(prop, fam(tier), dq, wq, 1, []string{"a", "b"})
		}
		sp.Bounds = func(tier string) map[string]interface{} {
			if tier == "thorough" {
				return evalBounds(tier, famName, len(fam(tier)), dt, wt, 2, keysQ)
			}
			return evalBounds(tier, famName, len(fam(tier)), dq, wq, 1, []string{"a", "b"})
		}
	}
	outs := []string{"expressions outside the enumerated template family (only their integers and the documents are solver variables)",
		"documents deeper / arrays longer / strings longer than the bounds", "Go-struct documents (C18)"}
	mk("C01", familyCore, "CORE", 2, 2, 3, 3, "public Search on core-fragment templates vs. the specification evaluator, for every document and index in the bounds", outs)
	mk2("C02", familyProj, "PROJ", 2, 2, 3, 2, "public Search on projection templates vs. the specification evaluator (object wildcards compared as multisets, every member order explored)", outs)
	mk2("C09", familyFunc, "FUNC", 2, 3, 2, 3, "every built-in on every argument tuple over two lazy document members and an expression reference, vs. the function specification (value and error-ness)", outs)
	mk2("C10", familyFunc, "FUNC", 2, 3, 2, 3, "every built-in on every argument tuple incl. wrong arity and expression references: an ill-typed call must be an error, never a value, never a panic", outs)
	specs["C10"].Panics = true
	mk2("C11", familyCtx, "CTX", 2, 2, 2, 2, "an erroring sub-expression in every strict (and every non-strict) position of every construct: Search errs iff the specification says the error is reached", outs)
	for _, p := range []string{"C09", "C10"} {
		sp := specs[p]
		inner := sp.Jobs
		sp.Jobs = func(tier string) []*Job {
			js := inner(tier)
			for _, j := range js {
				j.NumBound = 1e30
			}
			return js
		}
		sp.Outside = append(append([]string{}, sp.Outside...), "numbers larger than 1e30 in magnitude (sums are then finite by construction)")
	}
	for _, p := range []string{"C10", "C11"} {
		sp := specs[p]
		inner := sp.Jobs
		sp.Jobs = func(tier string) []*Job {
			js := inner(tier)
			for _, j := range js {
				j.Params["onlyerr"] = "1"
			}
			return js
		}
	}
	mk("C07", familyBool, "BOOL", 2, 2, 2, 2, "truthiness, logical operators and comparators vs. the specification, all finite doubles and strings in bounds", outs)
}

func cmdTemplates(args []string) {
	fams := map[string]func(string) []tmpl{"core": familyCore, "proj": familyProj, "bool": familyBool, "prec": familyPrec, "func": familyFunc, "ctx": familyCtx}
	tier := "quick"
	if len(args) > 1 {
		tier = args[1]
	}
	ts := fams[args[0]](tier)
	for _, t := range ts {
		println(t.text, "  =>  ", t.spec, " mode", t.mode, "ints", t.ints)
	}
	println(len(ts), "templates")
}

func parseJobs(props []string, tier string) []*Job {
	var out []*Job
	nmax := 3
	if tier == "thorough" {
		nmax = 4
	}
	for n := 0; n <= nmax; n++ {
		j := jobOf("VerifParse", props, "n", itoa(n))
		j.WitEvery = 97
		out = append(out, j)
	}
	// longer sentences over sub-alphabets (see h_parse.go verifSymTokens)
	sub := map[int][2]int{1: {5, 7}, 2: {6, 9}, 3: {5, 7}, 4: {5, 7}}
	for _, a := range []int{1, 2, 3, 4} {
		lim := sub[a][0]
		if tier == "thorough" {
			lim = sub[a][1]
		}
		for n := nmax + 1; n <= lim; n++ {
			j := jobOf("VerifParse", props, "n", itoa(n), "alpha", itoa(a))
			j.WitEvery = 197
			out = append(out, j)
		}
	}
	return out
}

func lexJobs(props []string, entry string, tier string) []*Job {
	var out []*Job
	nmax := 3
	if tier == "thorough" {
		nmax = 4
	}
	for n := 0; n <= nmax; n++ {
		j := jobOf(entry, props, "N", itoa(n))
		j.WitEvery = 97
		j.Unwind = 3*n + 16
		out = append(out, j)
	}
	return out
}

func parseBounds(tier string) map[string]interface{} {
	if tier == "thorough" {
		return map[string]interface{}{"tokens_full_alphabet": "n <= 4 (all 30 token types symbolic)", "tokens_sub_alphabets": "brackets/slices n<=7, hash n<=9, calls n<=7, operators n<=7",
			"expression_bytes": "N <= 4 arbitrary bytes (Compile, tokenize)", "number_payload": "2 symbolic characters (-|digit)digit"}
	}
	return map[string]interface{}{"tokens_full_alphabet": "n <= 3 (all 30 token types symbolic)", "tokens_sub_alphabets": "brackets/slices n<=5, hash n<=6, calls n<=5, operators n<=5",
		"expression_bytes": "N <= 3 arbitrary bytes (Compile, tokenize)", "number_payload": "2 symbolic characters (-|digit)digit"}
}

func init() {
	parseOutside := []string{"token sequences longer than the bounds", "expressions longer than N bytes at byte level", "integers that do not fit int64 (grammatical, rejected: implementation limit)"}
	specs["C04"] = &CheckSpec{Prop: "C04", Level: "model_checking",
		Jobs: func(tier string) []*Job {
			return append(parseJobs([]string{"C04"}, tier), lexJobs([]string{"C04"}, "VerifCompile", tier)...)
		},
		Bounds: parseBounds, Assumptions: commonAssumptions, Outside: parseOutside,
		Explain: "the real Parser.Parse on symbolic token sequences: accepted iff the CYK circuit of the JMESPath grammar accepts, and every accepted AST is well formed; Compile on symbolic bytes",
	}
	specs["C03"] = &CheckSpec{Prop: "C03", Level: "model_checking",
		Jobs: func(tier string) []*Job {
			js := parseJobs([]string{"C03"}, tier)
			pj := evalJobs("C03", familyPrec(tier), 2, 1, 1, []string{"a", "b", "c", "d"})
			for _, j := range pj {
				j.InnerKeys = []string{"b", "c"}
			}
			js = append(js, pj...)
			return js
		},
		Bounds: parseBounds, Assumptions: commonAssumptions, Outside: parseOutside,
		Explain: "the AST of every accepted symbolic token sequence equals the AST of a reference parser written from the precedence table; unparenthesised operator mixes evaluate like their specified grouping on every document",
	}
	specs["C17"] = &CheckSpec{Prop: "C17", Level: "model_checking", Panics: true,
		Jobs: func(tier string) []*Job {
			js := lexJobs([]string{"C17"}, "VerifCompile", tier)
			js = append(js, lexJobs([]string{"C17"}, "VerifLex", tier)...)
			return append(js, parseJobs([]string{"C17"}, tier)...)
		},
		Bounds: parseBounds, Assumptions: commonAssumptions, Outside: parseOutside,
		Explain: "Compile/MustCompile result contract, SyntaxError fields, caret rendering on symbolic bytes; parser error offsets are token positions on symbolic token sequences",
	}
	specs["C05"] = &CheckSpec{Prop: "C05", Level: "model_checking", Panics: true,
		Jobs: func(tier string) []*Job {
			js := lexJobs([]string{"C05"}, "VerifLex", tier)
			js = append(js, lexJobs([]string{"C05"}, "VerifCompile", tier)...)
			js = append(js, parseJobs([]string{"C05"}, tier)...)
			L := 6
			if tier == "thorough" {
				L = 12
			}
			sk := jobOf("VerifSliceKernel", []string{"C05"}, "L", itoa(L))
			sk.Unwind = L + 2
			js = append(js, sk)
			keys := []string{"a", "b"}
			js = append(js, evalJobs("C05", familyCore(tier), 2, 2, 1, keys)...)
			js = append(js, evalJobs("C05", familyProj(tier), 2, 2, 1, keys)...)
			js = append(js, evalJobs("C05", familyFunc(tier), 2, 3, 1, keys)...)
			js = append(js, evalJobs("C05", familyCtx(tier), 2, 2, 1, keys)...)
			js = append(js, evalJobs("C05", familyBool("quick"), 2, 2, 1, keys)...)
			return js
		},
		Bounds: func(tier string) map[string]interface{} {
			b := parseBounds(tier)
			b["evaluation"] = "template families CORE, PROJ, FUNC, CTX, BOOL on documents of depth 2, arrays <= 2 (3 for functions), free 64-bit integers"
			b["loop_budget"] = "every loop: at most max(64, 2*len(expression)+16) iterations per activation (lexer: 3N+16); recursion depth 400; exceeding it is a reported failure"
			return b
		},
		Assumptions: commonAssumptions,
		Outside: []string{"expressions longer than the byte/token bounds (the property mentions 64 KiB)", "stack exhaustion on deeply nested input", "panics inside stubbed standard-library calls other than their documented ones", "time/memory beyond the per-loop budgets"},
		Explain: "the implicit obligations of every harness: no panic site reachable (bounds, nil, type assertion, uncomparable ==, division, explicit panic) and no loop beyond its budget, over symbolic bytes, token sequences, integers and documents",
	}
}
