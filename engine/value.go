// symgo: a forking symbolic executor over go/ssa with an SMT (z3) back end.
// Values: scalars carry either a concrete Go value or an SMT term.
package main

import (
	"fmt"
	"go/types"
	"math"

	"golang.org/x/tools/go/ssa"
)

type Val interface{}

// Int is a fixed-width machine integer (bit-vector of width W).
type Int struct {
	W int
	S bool   // signed static type
	T string // SMT term; "" => concrete
	C uint64
}

// Bool is a Go bool; EqVar/EqC remember "T is (= EqVar const)" so that the
// executor can substitute the constant after taking the true branch.
type Bool struct {
	T     string
	C     bool
	EqVar string
	EqC   uint64
}

// Flt is a float64.
type Flt struct {
	T string
	C float64
}

// Str is a string of concrete length: one Int (W=8) per byte, or opaque.
type Str struct {
	B  []Int
	Op *Opaque
}

// Opaque is a string whose content is not modelled (formatting results).
// Only len (a fresh non-negative variable), concatenation, storing and
// provenance queries are allowed on it.
type Opaque struct {
	Kind  string
	Parts []Str
	Len   string // SMT var for its length, created on demand
	Arg   Val    // json.Marshal: the marshalled value
}

// OpaqueBytes is the content of a byte slice whose bytes are not modelled.
type OpaqueBytes struct{ Op *Opaque }

type Struct struct{ F []Val }
type Array struct{ E []Val }

// Cell is a heap object (or a global, or an address-taken local).
type Cell struct {
	V     Val
	Name  string
	Epoch int
}

type Slice struct {
	Arr           *Cell
	Off, Len, Cap int
}

type Step struct {
	Field int
	Idx   *Int
}

type Ptr struct {
	Base *Cell
	Path []Step
}

type Map struct {
	Keys  []Val
	Vals  []Val
	Epoch int
	Doc   bool // part of a symbolic document: range order is solver-chosen
	// members of a symbolic document object whose presence has not been asked for yet
	Pend   []string
	PDepth int
	PID    int
}

// Iface is an interface value: nil (T==nil, L==nil), a concrete dynamic
// type + value, or an unmaterialised lazy JSON node.
type Iface struct {
	T types.Type
	V Val
	L *Lazy
}

type Tuple []Val

// Fn is a function value (possibly a closure or bound method).
type Fn struct {
	F      *ssa.Function
	Env    []Val
	Native func(args []Val) Val // engine-implemented function value (e.g. reflectlite.Swapper's result)
}

type MapIter struct {
	keys []Val
	vals []Val
	i    int
	str  *Str
}

// reflect models
type RV struct {
	v     Iface // the value, boxed with its static/dynamic type
	valid bool
}
type RT struct{ t types.Type }

func mask(w int) uint64 {
	if w >= 64 {
		return ^uint64(0)
	}
	return (uint64(1) << uint(w)) - 1
}
func (i Int) conc() bool { return i.T == "" }
func (i Int) term() string {
	if i.T != "" {
		return i.T
	}
	return bvc(i.W, i.C)
}
func bvc(w int, v uint64) string {
	return fmt.Sprintf("(_ bv%d %d)", v&mask(w), w)
}
func (i Int) sval() int64 {
	v := i.C & mask(i.W)
	if i.S && i.W < 64 && v&(1<<uint(i.W-1)) != 0 {
		v |= ^mask(i.W)
	}
	return int64(v)
}
func (i Int) uval() uint64 { return i.C & mask(i.W) }
func (b Bool) term() string {
	if b.T != "" {
		return b.T
	}
	if b.C {
		return "true"
	}
	return "false"
}
func (f Flt) term() string {
	if f.T != "" {
		return f.T
	}
	return fmt.Sprintf("((_ to_fp 11 53) (_ bv%d 64))", math.Float64bits(f.C))
}
func mkInt(v int64) Int { return Int{W: 64, S: true, C: uint64(v)} }

func strOf(s string) Str {
	r := Str{B: make([]Int, len(s))}
	for i := 0; i < len(s); i++ {
		r.B[i] = Int{W: 8, C: uint64(s[i])}
	}
	return r
}
func (s Str) concrete() (string, bool) {
	if s.Op != nil {
		return "", false
	}
	b := make([]byte, len(s.B))
	for i, c := range s.B {
		if !c.conc() {
			return "", false
		}
		b[i] = byte(c.C)
	}
	return string(b), true
}
func opaque(kind string, parts ...Str) Str {
	return Str{Op: &Opaque{Kind: kind, Parts: parts}}
}

func intInfo(t *types.Basic) (int, bool) {
	switch t.Kind() {
	case types.Int8:
		return 8, true
	case types.Int16:
		return 16, true
	case types.Int32, types.UntypedRune:
		return 32, true
	case types.Int, types.Int64, types.UntypedInt:
		return 64, true
	case types.Uint8:
		return 8, false
	case types.Uint16:
		return 16, false
	case types.Uint32:
		return 32, false
	case types.Uint, types.Uint64, types.Uintptr:
		return 64, false
	}
	panic("intInfo " + t.String())
}
