package main

import (
	"fmt"
	"hash/fnv"
	"os"
	"go/types"
	"runtime/debug"
	"sort"
	"strings"
	"sync"
	"sync/atomic"
	"time"

	"golang.org/x/tools/go/ssa"
)

var profPaths = os.Getenv("SYMGO_PROF") != ""

type Finding struct {
	Kind     string   `json:"kind"`
	ID       string   `json:"id,omitempty"`
	Func     string   `json:"func"`
	Where    string   `json:"where"`
	Key      string   `json:"key"`
	Tape     []string `json:"tape"`
	Abstract []string `json:"abstract,omitempty"`
	Job      string   `json:"job"`
	Entry    string   `json:"entry"`
	Params   map[string]string `json:"params"`
}

type Witness struct {
	Entry  string            `json:"entry"`
	Params map[string]string `json:"params"`
	Tape   []string          `json:"tape"`
	Notes  []string          `json:"notes"`
	End    string            `json:"end"`
}

// Job is one harness entry point with concrete run parameters; its paths are
// explored exhaustively (every branch decided by the solver).
type Job struct {
	Entry  string
	Params map[string]string
	// document bounds
	W, S      int
	Keys      []string
	InnerKeys []string // key universe of nested objects (nil: same as Keys)
	NumBound  float64
	Unwind    int
	MapOrders bool
	Frame     bool
	NoIfConv  bool
	Props     []string // active assertion-id prefixes
	WitEvery  int      // sample every k-th completed path as a witness
	MaxPerKey int
	Redirect  map[string]string // qualified function name -> harness function that models it
	Solver    string // "" = default (z3); "cvc5" for floating-point heavy jobs
	LockedWritesOK bool // C12: a write made while a mutex is held is synchronised, not a race

	idx         int
	witCounter  int64
	mu          sync.Mutex
	paths       int64
	ends        map[string]int
	findings    map[string][]*Finding
	unknowns    []string
	unsupp      []string
	witnesses   []*Witness
	obligations atomic.Int64
	branches    int64
	steps       int64
	funcs       map[string]bool
	nUnknown    int64
	incomplete  bool
	start       time.Time
	wall        time.Duration
	pendingCnt  int64
}

func newJob(entry string, params map[string]string) *Job {
	j := &Job{Entry: entry, Params: params, W: 2, S: 1, Keys: []string{"a", "b"}, Unwind: 64, MapOrders: true,
		Props: []string{"*"}, MaxPerKey: 1, ends: map[string]int{}, findings: map[string][]*Finding{}, funcs: map[string]bool{}}
	return j
}

func (j *Job) describe() string {
	ks := make([]string, 0, len(j.Params))
	for k := range j.Params {
		ks = append(ks, k)
	}
	sort.Strings(ks)
	parts := []string{j.Entry}
	for _, k := range ks {
		if strings.HasPrefix(k, "__") {
			continue
		}
		parts = append(parts, k+"="+j.Params[k])
	}
	return strings.Join(parts, " ")
}

func (j *Job) assertActive(id string) bool {
	for _, p := range j.Props {
		if p == "*" || strings.HasPrefix(id, p) {
			return true
		}
		// ids may list several properties: "C02,C11:..."
		if i := strings.Index(id, ":"); i > 0 {
			for _, q := range strings.Split(id[:i], ",") {
				if q == p {
					return true
				}
			}
		}
	}
	return false
}

func (j *Job) wantFinding(key string) bool {
	j.mu.Lock()
	defer j.mu.Unlock()
	return len(j.findings[key]) < j.MaxPerKey
}

func (j *Job) addFinding(f *Finding) {
	j.mu.Lock()
	defer j.mu.Unlock()
	if len(j.findings[f.Key]) < j.MaxPerKey {
		f.Entry, f.Params = j.Entry, j.Params
		j.findings[f.Key] = append(j.findings[f.Key], f)
	}
}

func (j *Job) noteUnknown(what string) {
	atomic.AddInt64(&j.nUnknown, 1)
	j.mu.Lock()
	if len(j.unknowns) < 10 {
		j.unknowns = append(j.unknowns, what)
	}
	j.mu.Unlock()
}

func (j *Job) noteUnsupported(what string) {
	j.mu.Lock()
	if len(j.unsupp) < 10 {
		j.unsupp = append(j.unsupp, what)
	}
	j.ends["unsupported"]++
	j.mu.Unlock()
}

func (j *Job) allFindings() []*Finding {
	var out []*Finding
	ks := make([]string, 0, len(j.findings))
	for k := range j.findings {
		ks = append(ks, k)
	}
	sort.Strings(ks)
	for _, k := range ks {
		out = append(out, j.findings[k]...)
	}
	return out
}

// ---------- scheduler ----------
type item struct {
	job    *Job
	prefix []bool
}

type Sched struct {
	P        *Program
	mu       sync.Mutex
	cond     *sync.Cond
	queues   [][]item // one LIFO stack per job, served in job order so that jobs finish one after another
	nq       int      // total queued items
	first    int      // lowest job index that may still have items
	active   int
	deadline time.Time
	stopped  bool
	solver   string
	timeout  int
	logDir   string

	totalQueries int64
	solverTime   int64 // ns
	solverErrors []string
}

func newSched(P *Program, deadline time.Time) *Sched {
	s := &Sched{P: P, deadline: deadline, solver: "z3", timeout: 20000}
	s.cond = sync.NewCond(&s.mu)
	return s
}

func (s *Sched) add(j *Job) {
	j.start = time.Now()
	s.mu.Lock()
	j.idx = len(s.queues)
	atomic.AddInt64(&j.pendingCnt, 1)
	s.queues = append(s.queues, []item{{j, nil}})
	s.nq++
	s.mu.Unlock()
	s.cond.Signal()
}

func (s *Sched) pop() (item, bool) {
	s.mu.Lock()
	defer s.mu.Unlock()
	for {
		if !s.deadline.IsZero() && time.Now().After(s.deadline) && s.nq > 0 {
			for qi := range s.queues {
				for _, it := range s.queues[qi] {
					it.job.incomplete = true
				}
				s.queues[qi] = nil
			}
			s.nq = 0
			s.stopped = true
		}
		if s.nq > 0 {
			for s.first < len(s.queues) && len(s.queues[s.first]) == 0 {
				s.first++
			}
			q := s.queues[s.first]
			it := q[len(q)-1]
			s.queues[s.first] = q[:len(q)-1]
			s.nq--
			s.active++
			return it, true
		}
		if s.active == 0 {
			s.cond.Broadcast()
			return item{}, false
		}
		s.cond.Wait()
	}
}

// push publishes an alternative prefix as soon as it is discovered.
func (s *Sched) push(j *Job, prefix []bool) {
	s.mu.Lock()
	if s.stopped {
		j.incomplete = true
		s.mu.Unlock()
		return
	}
	atomic.AddInt64(&j.pendingCnt, 1)
	s.queues[j.idx] = append(s.queues[j.idx], item{j, prefix})
	s.nq++
	if j.idx < s.first {
		s.first = j.idx
	}
	s.mu.Unlock()
	s.cond.Signal()
}

func (s *Sched) done(j *Job) {
	s.mu.Lock()
	s.active--
	n := atomic.AddInt64(&j.pendingCnt, -1)
	if n == 0 {
		j.wall = time.Since(j.start)
	}
	s.mu.Unlock()
	s.cond.Broadcast()
}

// run explores all queued jobs with n workers.
func (s *Sched) run(n int) {
	var wg sync.WaitGroup
	for w := 0; w < n; w++ {
		wg.Add(1)
		go func(w int) {
			defer wg.Done()
			x := s.newWorker(w)
			defer func() {
				for _, sol := range x.sols {
					atomic.AddInt64(&s.totalQueries, int64(sol.queries))
					atomic.AddInt64(&s.solverTime, int64(sol.dur))
					s.mu.Lock()
					s.solverErrors = append(s.solverErrors, sol.errors...)
					s.mu.Unlock()
					sol.close()
				}
			}()
			for {
				it, ok := s.pop()
				if !ok {
					return
				}
				x.runPath(it.job, it.prefix)
				s.done(it.job)
			}
		}(w)
	}
	wg.Wait()
}

func (s *Sched) newWorker(w int) *Exec {
	x := &Exec{P: s.P, sched: s, fnNames: map[*ssa.Function]string{}, globals: map[*ssa.Global]*Cell{}, tables: map[string]string{}}
	x.sol = newSolver(s.solver, s.timeout, "")
	x.sols = map[string]*Solver{s.solver: x.sol}
	x.defaultSolver = s.solver
	if lf := os.Getenv("SYMGO_LOG"); lf != "" && w == 0 {
		x.sol.log, _ = os.Create(lf)
	}
	x.initWorker()
	return x
}

// initWorker allocates globals, runs the package initialisers of the code
// under test and of unicode/utf8 concretely, declares constant tables in
// the solver, and snapshots the heap.
func (x *Exec) initWorker() {
	P := x.P
	alloc := func(p *ssa.Package) {
		for _, m := range p.Members {
			if g, ok := m.(*ssa.Global); ok {
				func() {
					defer func() { recover() }()
					x.globals[g] = &Cell{V: x.zero(g.Type().Underlying().(*types.Pointer).Elem()), Name: g.Name()}
				}()
			}
		}
	}
	drop := func(p *ssa.Package) {
		for _, m := range p.Members {
			if g, ok := m.(*ssa.Global); ok {
				delete(x.globals, g)
			}
		}
	}
	x.job = newJob("<init>", nil)
	x.job.Unwind = 1000000
	x.resetPath()
	// standard-library packages whose package-level variables the interpreted
	// code may read: their real initialisers are run; if one cannot be
	// interpreted its globals are dropped, so that any later access is
	// reported as unsupported instead of silently reading zero values.
	x.initOK = map[string]bool{}
	for _, name := range []string{"errors", "math/bits", "unicode/utf8", "math", "strconv", "unicode", "strings", "sort", "io"} {
		pk := P.prog.ImportedPackage(name)
		if pk == nil {
			continue
		}
		alloc(pk)
		x.initOK[name] = true
		ok := func() (ok bool) {
			defer func() {
				if r := recover(); r != nil {
					ok = false
				}
			}()
			x.steps = 0
			x.call(pk.Func("init"), nil, nil)
			return true
		}()
		if !ok {
			x.initOK[name] = false
			drop(pk)
		}
		if os.Getenv("SYMGO_INITDBG") != "" {
			fmt.Printf("init %s ok=%v steps=%d\n", name, ok, x.steps)
		}
	}
	// environment packages used only through stubs (C19): zero-valued globals, never initialised
	for _, name := range []string{"os", "flag", "sync"} {
		if pk := P.prog.ImportedPackage(name); pk != nil {
			alloc(pk)
		}
	}
	initPkgs := []*ssa.Package{P.lib}
	if P.cli != nil {
		initPkgs = append(initPkgs, P.cli)
	}
	for _, pk := range initPkgs {
		alloc(pk)
	}
	for _, pk := range initPkgs {
		x.steps = 0
		x.call(pk.Func("init"), nil, nil)
	}
	x.declTables(x.sol)
	x.snapshotHeap()
}

// declTables: constant tables -> uninterpreted functions at solver level 0
func (x *Exec) declTables(sol *Solver) {
	declared := map[string]bool{}
	for _, c := range x.globals {
		a, ok := c.V.(Array)
		if !ok || len(a.E) < 64 {
			continue
		}
		good := true
		for _, e := range a.E {
			i, ok := e.(Int)
			if !ok || !i.conc() {
				good = false
				break
			}
		}
		if !good {
			continue
		}
		e0 := a.E[0].(Int)
		sig := fmt.Sprintf("%d:", e0.W) + tableSig(a)
		h := fnv.New64a()
		h.Write([]byte(sig))
		name := fmt.Sprintf("tbl_%x", h.Sum64())
		if declared[name] {
			continue
		}
		declared[name] = true
		sol.send(fmt.Sprintf("(declare-fun %s ((_ BitVec 64)) (_ BitVec %d))\n", name, e0.W))
		for i, e := range a.E {
			sol.send(fmt.Sprintf("(assert (= (%s %s) %s))\n", name, bvc(64, uint64(i)), bvc(e0.W, e.(Int).uval())))
		}
		x.tables[sig] = name
	}
}

// snapshotHeap records every cell and map reachable from the globals so that
// each path starts from the same initial heap.
func (x *Exec) snapshotHeap() {
	x.snapC = map[*Cell]Val{}
	x.snapM = map[*Map][2][]Val{}
	var walk func(v Val)
	walk = func(v Val) {
		switch v := v.(type) {
		case Struct:
			for _, f := range v.F {
				walk(f)
			}
		case Array:
			for _, e := range v.E {
				walk(e)
			}
		case Ptr:
			if v.Base != nil {
				if _, seen := x.snapC[v.Base]; !seen {
					x.snapC[v.Base] = v.Base.V
					walk(v.Base.V)
				}
			}
		case Slice:
			if v.Arr != nil {
				if _, seen := x.snapC[v.Arr]; !seen {
					x.snapC[v.Arr] = v.Arr.V
					walk(v.Arr.V)
				}
			}
		case *Map:
			if v != nil {
				if _, seen := x.snapM[v]; !seen {
					x.snapM[v] = [2][]Val{v.Keys, v.Vals}
					for _, e := range v.Vals {
						walk(e)
					}
				}
			}
		case Iface:
			walk(v.V)
		case Tuple:
			for _, e := range v {
				walk(e)
			}
		}
	}
	for _, c := range x.globals {
		x.snapC[c] = c.V
		walk(c.V)
	}
}

func (x *Exec) restoreHeap() {
	for c, v := range x.snapC {
		c.V = v
	}
	for m, kv := range x.snapM {
		m.Keys, m.Vals = kv[0], kv[1]
	}
}

func (x *Exec) resetPath() {
	x.pos, x.decs, x.pending = 0, nil, nil
	x.vars, x.nvar, x.ntmp, x.nlazy = nil, 0, 0, 0
	x.named = map[string]string{}
	x.known = map[string]uint64{}
	x.notEq = map[string]map[uint64]bool{}
	x.roots, x.tape, x.notes, x.abstract = nil, nil, nil, nil
	x.syncMaps, x.onceDone, x.lockDepth, x.pools, x.rdepth = nil, nil, 0, nil, 0
	x.steps, x.depth, x.epoch, x.monitor, x.catching = 0, 0, 1, false, 0
	x.curFn, x.curIn = nil, nil
	x.funcs = map[*ssa.Function]bool{}
}

// runPath executes one path (decision prefix) of a job.
func (x *Exec) runPath(job *Job, prefix []bool) {
	x.job = job
	x.prefix = prefix
	want := job.Solver
	if want == "" {
		want = x.defaultSolver
	}
	if x.sols[want] == nil {
		x.sols[want] = newSolver(want, x.sched.timeout*3, "")
		x.declTables(x.sols[want])
	}
	x.sol = x.sols[want]
	x.resetPath()
	x.restoreHeap()
	entry := x.P.entryFunc(job.Entry)
	if entry == nil {
		job.noteUnsupported("no harness entry " + job.Entry)
		return
	}
	b0 := x.branches
	q0, d0 := x.sol.queries, x.sol.dur
	x.sol.send("(push 1)\n")
	end := "return"
	func() {
		defer func() {
			if r := recover(); r != nil {
				switch r := r.(type) {
				case pathEnd:
					end = r.why
				case unsupported:
					end = "unsupported"
					job.noteUnsupported(r.msg)
				case userPanic:
					end = "explicit-panic"
				default:
					end = "engine-error"
					job.noteUnsupported(fmt.Sprintf("engine error: %v at %s\n%s", r, x.where(), shortStack()))
				}
			}
		}()
		x.call(entry, nil, nil)
	}()
	if end == "return" && job.WitEvery > 0 {
		n := atomic.AddInt64(&job.witCounter, 1)
		if n%int64(job.WitEvery) == 1 || job.WitEvery == 1 {
			x.sol.send("(push 1)\n")
			if x.sol.check() == "sat" {
				var nv []Val
				for _, nt := range x.notes {
					nv = append(nv, nt.V)
				}
				m := x.modelOf(nv)
				w := &Witness{Entry: job.Entry, Params: job.Params, Tape: x.renderTape(m), End: end}
				for _, nt := range x.notes {
					w.Notes = append(w.Notes, nt.Tag+"="+x.renderVal(nt.V, m))
				}
				if len(x.abstract) == 0 {
					job.mu.Lock()
					job.witnesses = append(job.witnesses, w)
					job.mu.Unlock()
				}
			}
			x.sol.send("(pop 1)\n")
		}
	}
	x.sol.send("(pop 1)\n")
	if profPaths {
		fmt.Printf("PATH end=%s decs=%d ntmp=%d nvar=%d steps=%d queries=%d solver_ms=%.1f\n", end, len(x.decs), x.ntmp, x.nvar, x.steps, x.sol.queries-q0, float64(x.sol.dur-d0)/1e6)
	}
	atomic.AddInt64(&job.paths, 1)
	atomic.AddInt64(&job.branches, int64(x.branches-b0))
	atomic.AddInt64(&job.steps, int64(x.steps))
	job.mu.Lock()
	job.ends[end]++
	for f, sut := range x.funcs {
		if sut {
			job.funcs[shortFn(f)] = true
		}
	}
	job.mu.Unlock()
}

func shortStack() string {
	s := string(debug.Stack())
	lines := strings.Split(s, "\n")
	var out []string
	for _, l := range lines {
		if strings.Contains(l, "/verif/engine/") || strings.Contains(l, "symgo") {
			out = append(out, strings.TrimSpace(l))
		}
		if len(out) > 12 {
			break
		}
	}
	return strings.Join(out, " | ")
}
