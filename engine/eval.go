package main

import (
	"fmt"
	"go/token"
	"go/types"
	"unicode/utf8"

	"golang.org/x/tools/go/ssa"
)

func (x *Exec) eval(fr *frame, in ssa.Value) Val {
	switch in := in.(type) {
	case *ssa.Alloc:
		return Ptr{Base: x.newCell(x.zero(in.Type().Underlying().(*types.Pointer).Elem()), in.Comment)}
	case *ssa.BinOp:
		return x.binop(in.Op, x.get(fr, in.X), x.get(fr, in.Y))
	case *ssa.UnOp:
		v := x.get(fr, in.X)
		switch in.Op {
		case token.MUL:
			return x.load(v.(Ptr))
		case token.NOT:
			return not(v.(Bool))
		case token.SUB:
			switch i := v.(type) {
			case Int:
				return x.binInt(token.SUB, Int{W: i.W, S: i.S}, i)
			case Flt:
				if i.T == "" {
					return Flt{C: -i.C}
				}
				return Flt{T: "(fp.neg " + i.T + ")"}
			}
		case token.XOR:
			i := v.(Int)
			return x.binInt(token.XOR, Int{W: i.W, S: i.S, C: mask(i.W)}, i)
		}
	case *ssa.Call:
		return x.doCall(fr, in.Common())
	case *ssa.ChangeType:
		return x.get(fr, in.X)
	case *ssa.ChangeInterface:
		return x.get(fr, in.X)
	case *ssa.Convert:
		return x.convert(x.get(fr, in.X), in.X.Type(), in.Type())
	case *ssa.Extract:
		return x.get(fr, in.Tuple).(Tuple)[in.Index]
	case *ssa.Field:
		return x.get(fr, in.X).(Struct).F[in.Field]
	case *ssa.FieldAddr:
		p := x.get(fr, in.X).(Ptr)
		if p.Base == nil {
			x.fail("nil-deref", "")
		}
		return Ptr{Base: p.Base, Path: append(append(make([]Step, 0, len(p.Path)+1), p.Path...), Step{Field: in.Field})}
	case *ssa.IndexAddr:
		b := x.get(fr, in.X)
		idx := x.get(fr, in.Index).(Int)
		switch b := b.(type) {
		case Slice:
			i := x.checkIndex(idx, b.Len)
			if i.conc() {
				i.C += uint64(b.Off)
			} else if b.Off != 0 {
				i = Int{W: 64, S: true, T: "(bvadd " + i.T + " " + bvc(64, uint64(b.Off)) + ")"}
			}
			return Ptr{Base: b.Arr, Path: []Step{{Idx: &i}}}
		case Ptr:
			if b.Base == nil {
				x.fail("nil-deref", "")
			}
			n := int(in.X.Type().Underlying().(*types.Pointer).Elem().Underlying().(*types.Array).Len())
			i := x.checkIndex(idx, n)
			return Ptr{Base: b.Base, Path: append(append(make([]Step, 0, len(b.Path)+1), b.Path...), Step{Idx: &i})}
		}
	case *ssa.Lookup:
		return x.lookup(fr, in)
	case *ssa.Index:
		c := x.get(fr, in.X)
		k := x.get(fr, in.Index).(Int)
		switch c := c.(type) {
		case Str:
			return x.strIndex(c, k)
		case Array:
			idx := x.checkIndex(k, len(c.E))
			return x.loadPath(c, []Step{{Idx: &idx}})
		}
	case *ssa.MakeInterface:
		return Iface{T: in.X.Type(), V: x.get(fr, in.X)}
	case *ssa.MakeMap:
		return &Map{Epoch: x.epoch}
	case *ssa.MakeClosure:
		fn := in.Fn.(*ssa.Function)
		env := make([]Val, len(in.Bindings))
		for i, b := range in.Bindings {
			env[i] = x.get(fr, b)
		}
		return Fn{F: fn, Env: env}
	case *ssa.MakeSlice:
		n := x.subst(x.get(fr, in.Len).(Int))
		c := x.subst(x.get(fr, in.Cap).(Int))
		if n.conc() && !c.conc() {
			// symbolic capacity of a fresh slice: the range check is the
			// obligation; the capacity itself is then taken as len (a fresh
			// slice is unaliased, so a smaller capacity is unobservable)
			c64 := ext(c, 64, c.S)
			x.mustNot("(or (bvslt "+c64.term()+" "+bvc(64, n.uval())+") (bvsgt "+c64.term()+" "+bvc(64, 1<<40)+"))", "makeslice-range", "")
			c = n
		}
		if !n.conc() {
			// symbolic length: a negative or huge length is a run-time panic
			// (obligation); small lengths are case-split
			n64 := ext(n, 64, n.S)
			x.mustNot("(or (bvslt "+n64.term()+" (_ bv0 64)) (bvsgt "+n64.term()+" (_ bv1099511627776 64)))", "makeslice-range", "")
			found := false
			for k := 0; k <= 24; k++ {
				if x.truth(x.binInt(token.EQL, n64, mkInt(int64(k))).(Bool)) {
					n = mkInt(int64(k))
					found = true
					break
				}
			}
			if !found {
				panic(unsupported{"symbolic make length above 24 at " + x.where()})
			}
			if !c.conc() {
				c = n
			}
		}
		if !n.conc() || !c.conc() {
			panic(unsupported{"symbolic make length at " + x.where()})
		}
		if n.sval() < 0 || c.sval() < n.sval() || c.sval() > 1<<20 {
			x.fail("makeslice-range", "")
		}
		et := in.Type().Underlying().(*types.Slice).Elem()
		a := Array{E: make([]Val, c.sval())}
		z := x.zero(et)
		for i := range a.E {
			a.E[i] = z
		}
		return Slice{Arr: x.newCell(a, "makeslice"), Len: int(n.sval()), Cap: int(c.sval())}
	case *ssa.Slice:
		return x.sliceOp(fr, in)
	case *ssa.TypeAssert:
		return x.typeAssert(x.get(fr, in.X).(Iface), in.AssertedType, in.CommaOk)
	case *ssa.Range:
		return x.rangeStart(x.get(fr, in.X))
	case *ssa.Next:
		it := x.get(fr, in.Iter).(*MapIter)
		if in.IsString {
			// for i, r := range s: decode one rune per step with the interpreted utf8 decoder
			s := *it.str
			x.needContent(s, "range over string")
			if it.i >= len(s.B) {
				return Tuple{Bool{C: false}, mkInt(0), Int{W: 32, S: true}}
			}
			dec := x.P.stdFunc("unicode/utf8", "DecodeRuneInString")
			t := x.call(dec, []Val{Str{B: s.B[it.i:]}}, nil).(Tuple)
			w := x.subst(t[1].(Int))
			if !w.conc() {
				panic(unsupported{"symbolic rune width"})
			}
			pos := it.i
			it.i += int(w.sval())
			return Tuple{Bool{C: true}, mkInt(int64(pos)), t[0]}
		}
		mt := in.Iter.(*ssa.Range).X.Type().Underlying().(*types.Map)
		if it.i >= len(it.keys) {
			return Tuple{Bool{C: false}, x.zero(mt.Key()), x.zero(mt.Elem())}
		}
		it.i++
		return Tuple{Bool{C: true}, it.keys[it.i-1], it.vals[it.i-1]}
	case *ssa.SliceToArrayPointer:
		panic(unsupported{"slice to array pointer"})
	}
	panic(unsupported{fmt.Sprintf("eval %T %s at %s", in, in, x.where())})
}

// rangeStart: iteration over a map. Maps that belong to a symbolic document
// are iterated in a solver-independent but *explored* order: every
// permutation is a separate path (forked through fresh choice variables).
func (x *Exec) rangeStart(v Val) Val {
	if s, ok := v.(Str); ok {
		return &MapIter{str: &s}
	}
	m := v.(*Map)
	it := &MapIter{}
	if m == nil {
		return it
	}
	x.forceKeys(m)
	keys := append([]Val{}, m.Keys...)
	vals := append([]Val{}, m.Vals...)
	if m.Doc && len(keys) > 1 && !x.inHarness() && x.job.MapOrders {
		// choose a permutation by successive choices
		n := len(keys)
		for i := 0; i < n-1; i++ {
			k := x.choose("ord", n-i)
			keys[i], keys[i+k] = keys[i+k], keys[i]
			vals[i], vals[i+k] = vals[i+k], vals[i]
		}
	}
	it.keys, it.vals = keys, vals
	return it
}

func (x *Exec) inHarness() bool {
	if len(x.curFn) == 0 {
		return true
	}
	return !x.P.isSUT(x.curFn[len(x.curFn)-1])
}

func (x *Exec) typeAssert(v Iface, at types.Type, commaOk bool) Val {
	if v.L != nil && !v.L.done {
		// ask only what the code asks: "is this node of that one kind?"
		if types.IsInterface(at) {
			if at.Underlying().(*types.Interface).NumMethods() == 0 {
				if x.lazyIs(v.L, kNull) {
					v = Iface{}
				}
			} else {
				// no JSON value implements a non-empty interface
				if commaOk {
					return Tuple{x.zero(at), Bool{C: false}}
				}
				x.fail("type-assert", "")
			}
		} else if k := jsonKindOfType(at); k >= 0 {
			if !x.lazyIs(v.L, k) {
				if commaOk {
					return Tuple{x.zero(at), Bool{C: false}}
				}
				x.fail("type-assert", "")
			}
		} else {
			if commaOk {
				return Tuple{x.zero(at), Bool{C: false}}
			}
			x.fail("type-assert", "")
		}
	}
	if v.L != nil && !v.L.done {
		// non-nil, asserted to the empty interface: stays lazy
		if commaOk {
			return Tuple{v, Bool{C: true}}
		}
		return v
	}
	v = x.resolve(v)
	ok := false
	if v.T != nil {
		if types.IsInterface(at) {
			ok = types.Implements(v.T, at.Underlying().(*types.Interface))
			if _, isRT := v.V.(RT); isRT {
				ok = true
			}
		} else {
			ok = types.Identical(v.T, at)
		}
	}
	var res Val
	if ok {
		if types.IsInterface(at) {
			res = v
		} else {
			res = v.V
		}
	} else {
		res = x.zero(at)
	}
	if commaOk {
		return Tuple{res, Bool{C: ok}}
	}
	if !ok {
		x.fail("type-assert", "")
	}
	return res
}

func (x *Exec) sliceOp(fr *frame, in *ssa.Slice) Val {
	b := x.get(fr, in.X)
	limit := 0
	ci := func(v ssa.Value, def int) int {
		if v == nil {
			return def
		}
		i := x.subst(x.get(fr, v).(Int))
		if !i.conc() {
			// symbolic bound (e.g. an if-converted index): out of range is the
			// run-time panic (obligation), in-range values are case-split
			i64 := ext(i, 64, i.S)
			x.mustNot("(or (bvslt "+i64.term()+" (_ bv0 64)) (bvsgt "+i64.term()+" "+bvc(64, uint64(limit))+"))", "slice-oob", "")
			for k := 0; k <= limit; k++ {
				if x.truth(x.binInt(token.EQL, i64, mkInt(int64(k))).(Bool)) {
					return k
				}
			}
			panic(unsupported{"symbolic slice bound at " + x.where()})
		}
		return int(i.sval())
	}
	switch b := b.(type) {
	case Str:
		if b.Op != nil {
			x.needContent(b, "slice")
		}
		limit = len(b.B)
		lo, hi := ci(in.Low, 0), ci(in.High, len(b.B))
		if lo < 0 || hi > len(b.B) || lo > hi {
			x.fail("slice-oob", "")
		}
		return Str{B: b.B[lo:hi:hi]}
	case Slice:
		limit = b.Cap
		lo, hi := ci(in.Low, 0), ci(in.High, b.Len)
		mx := ci(in.Max, b.Cap)
		if lo < 0 || hi > b.Cap || lo > hi || mx > b.Cap || hi > mx {
			x.fail("slice-oob", "")
		}
		if b.Arr == nil {
			return Slice{}
		}
		return Slice{Arr: b.Arr, Off: b.Off + lo, Len: hi - lo, Cap: mx - lo}
	case Ptr: // *array
		if b.Base == nil {
			x.fail("nil-deref", "")
		}
		n := len(x.load(b).(Array).E)
		limit = n
		lo, hi := ci(in.Low, 0), ci(in.High, n)
		mx := ci(in.Max, n)
		if lo < 0 || hi > n || lo > hi || hi > mx || mx > n {
			x.fail("slice-oob", "")
		}
		if len(b.Path) != 0 {
			panic(unsupported{"slice of nested array"})
		}
		return Slice{Arr: b.Base, Off: lo, Len: hi - lo, Cap: mx - lo}
	}
	panic(unsupported{"sliceOp"})
}

func (x *Exec) sliceElems(s Slice) []Val {
	if s.Arr == nil || s.Len == 0 {
		return nil
	}
	return s.Arr.V.(Array).E[s.Off : s.Off+s.Len]
}

func (x *Exec) convert(v Val, from, to types.Type) Val {
	fu, tu := from.Underlying(), to.Underlying()
	if tb, ok := tu.(*types.Basic); ok {
		if fb, ok := fu.(*types.Basic); ok {
			fi, ti := fb.Info(), tb.Info()
			switch {
			case fi&types.IsInteger != 0 && ti&types.IsInteger != 0:
				w, s := intInfo(tb)
				i := x.subst(v.(Int))
				r := ext(i, w, i.S)
				r.S = s
				return r
			case fi&types.IsInteger != 0 && ti&types.IsString != 0:
				i := x.subst(v.(Int))
				if i.conc() {
					r := rune(i.sval())
					if i.sval() < 0 || i.sval() > utf8.MaxRune {
						r = utf8.RuneError
					}
					return strOf(string(r))
				}
				return x.encodeRune(ext(i, 32, i.S))
			case fi&types.IsString != 0 && ti&types.IsString != 0:
				return v
			case fi&types.IsInteger != 0 && ti&types.IsFloat != 0:
				i := x.subst(v.(Int))
				if i.conc() {
					if i.S {
						return Flt{C: float64(i.sval())}
					}
					return Flt{C: float64(i.uval())}
				}
				if i.S {
					return x.nmF(Flt{T: "((_ to_fp 11 53) RNE " + i.T + ")"})
				}
				return x.nmF(Flt{T: "((_ to_fp_unsigned 11 53) RNE " + i.T + ")"})
			case fi&types.IsFloat != 0 && ti&types.IsFloat != 0:
				return v
			case fi&types.IsFloat != 0 && ti&types.IsInteger != 0:
				f := v.(Flt)
				w, s := intInfo(tb)
				if f.T == "" {
					if s {
						return Int{W: w, S: s, C: uint64(int64(f.C)) & mask(w)}
					}
					return Int{W: w, S: s, C: uint64(f.C) & mask(w)}
				}
				if w == 64 && s {
					// amd64 CVTTSD2SQ: truncation toward zero; NaN and out-of-range give MinInt64
					lo := Flt{C: -9223372036854775808.0}.term()
					hi := Flt{C: 9223372036854775808.0}.term()
					inr := "(and (fp.geq " + f.T + " " + lo + ") (fp.lt " + f.T + " " + hi + "))"
					return x.nmI(Int{W: 64, S: true, T: "(ite " + inr + " ((_ fp.to_sbv 64) RTZ " + f.T + ") #x8000000000000000)"})
				}
				panic(unsupported{"symbolic float to int conversion (only int64/int is modelled)"})
			}
		}
		if _, ok := fu.(*types.Slice); ok && tb.Info()&types.IsString != 0 {
			s := v.(Slice)
			if s.Arr != nil {
				if ob, ok := s.Arr.V.(OpaqueBytes); ok {
					return Str{Op: ob.Op}
				}
			}
			et := fu.(*types.Slice).Elem().Underlying().(*types.Basic)
			if et.Kind() == types.Int32 {
				r := Str{}
				for _, e := range x.sliceElems(s) {
					r = x.strConcat(r, x.convert(e, types.Typ[types.Int32], types.Typ[types.String]).(Str))
				}
				return r
			}
			r := Str{}
			for _, e := range x.sliceElems(s) {
				r.B = append(r.B, e.(Int))
			}
			return r
		}
	}
	if ts, ok := tu.(*types.Slice); ok {
		if fb, ok := fu.(*types.Basic); ok && fb.Info()&types.IsString != 0 {
			eb := ts.Elem().Underlying().(*types.Basic)
			s := v.(Str)
			x.needContent(s, "conversion to slice")
			if eb.Kind() == types.Uint8 {
				a := Array{E: make([]Val, len(s.B))}
				for i := range s.B {
					a.E[i] = s.B[i]
				}
				return Slice{Arr: x.newCell(a, "bytes"), Len: len(s.B), Cap: len(s.B)}
			}
			if eb.Kind() == types.Int32 {
				return x.stringToRunes(s)
			}
		}
	}
	if _, ok := tu.(*types.Pointer); ok {
		return v
	}
	panic(unsupported{fmt.Sprintf("convert %s -> %s at %s", from, to, x.where())})
}

// stringToRunes decodes with the interpreted unicode/utf8.DecodeRuneInString
// (so every byte-class decision is a solver-decided branch).
func (x *Exec) stringToRunes(s Str) Val {
	if cs, ok := s.concrete(); ok {
		rs := []rune(cs)
		a := Array{E: make([]Val, len(rs))}
		for i, r := range rs {
			a.E[i] = Int{W: 32, S: true, C: uint64(uint32(r))}
		}
		return Slice{Arr: x.newCell(a, "runes"), Len: len(rs), Cap: len(rs)}
	}
	dec := x.P.stdFunc("unicode/utf8", "DecodeRuneInString")
	var out []Val
	rest := s
	for len(rest.B) > 0 {
		t := x.call(dec, []Val{rest}, nil).(Tuple)
		r := t[0].(Int)
		w := x.subst(t[1].(Int))
		if !w.conc() {
			panic(unsupported{"symbolic rune width"})
		}
		out = append(out, r)
		rest = Str{B: rest.B[int(w.sval()):]}
	}
	return Slice{Arr: x.newCell(Array{E: out}, "runes"), Len: len(out), Cap: len(out)}
}

// encodeRune: string(r) for a symbolic rune, via the interpreted utf8.EncodeRune.
func (x *Exec) encodeRune(r Int) Str {
	enc := x.P.stdFunc("unicode/utf8", "EncodeRune")
	a := Array{E: make([]Val, 4)}
	for i := range a.E {
		a.E[i] = Int{W: 8}
	}
	cell := x.newCell(a, "runebuf")
	r.S = true
	n := x.subst(x.call(enc, []Val{Slice{Arr: cell, Len: 4, Cap: 4}, r}, nil).(Int))
	if !n.conc() {
		panic(unsupported{"symbolic encoded rune width"})
	}
	res := Str{}
	for i := 0; i < int(n.sval()); i++ {
		res.B = append(res.B, cell.V.(Array).E[i].(Int))
	}
	return res
}

// deferred: evaluate function value and arguments now, call later.
func (x *Exec) deferred(fr *frame, c *ssa.CallCommon) func() {
	if c.IsInvoke() {
		recv := x.resolve(x.get(fr, c.Value).(Iface))
		args := []Val{}
		for _, a := range c.Args {
			args = append(args, x.get(fr, a))
		}
		return func() {
			if recv.T == nil {
				x.fail("nil-deref", "")
			}
			fn := x.P.prog.LookupMethod(recv.T, c.Method.Pkg(), c.Method.Name())
			x.call(fn, append([]Val{recv.V}, args...), nil)
		}
	}
	args := []Val{}
	for _, a := range c.Args {
		args = append(args, x.get(fr, a))
	}
	fv := x.get(fr, c.Value)
	return func() {
		switch f := fv.(type) {
		case *ssa.Builtin:
			x.builtin(f, args, c)
		case Fn:
			if f.F == nil {
				x.fail("nil-deref", "")
			}
			x.call(f.F, args, f.Env)
		}
	}
}

func (x *Exec) doCall(fr *frame, c *ssa.CallCommon) Val {
	if c.IsInvoke() {
		recv := x.resolve(x.get(fr, c.Value).(Iface))
		args := make([]Val, 0, len(c.Args)+1)
		for _, a := range c.Args {
			args = append(args, x.get(fr, a))
		}
		if rt, ok := recv.V.(RT); ok {
			return x.reflectTypeMethod(rt, c.Method.Name(), args)
		}
		if recv.T == nil {
			x.fail("nil-deref", "")
		}
		fn := x.P.prog.LookupMethod(recv.T, c.Method.Pkg(), c.Method.Name())
		if fn == nil {
			panic(unsupported{"no method " + c.Method.Name() + " on " + recv.T.String()})
		}
		return x.call(fn, append([]Val{recv.V}, args...), nil)
	}
	args := make([]Val, 0, len(c.Args))
	for _, a := range c.Args {
		args = append(args, x.get(fr, a))
	}
	switch f := x.get(fr, c.Value).(type) {
	case *ssa.Builtin:
		return x.builtin(f, args, c)
	case Fn:
		if f.Native != nil {
			return f.Native(args)
		}
		if f.F == nil {
			x.fail("nil-deref", "")
		}
		return x.call(f.F, args, f.Env)
	}
	panic(unsupported{"call of " + c.Value.String()})
}

func (x *Exec) builtin(b *ssa.Builtin, args []Val, c *ssa.CallCommon) Val {
	switch b.Name() {
	case "len":
		switch a := args[0].(type) {
		case Str:
			return x.strLen(a)
		case Slice:
			return mkInt(int64(a.Len))
		case *Map:
			if a == nil {
				return mkInt(0)
			}
			x.forceKeys(a)
			return mkInt(int64(len(a.Keys)))
		}
	case "cap":
		if a, ok := args[0].(Slice); ok {
			return mkInt(int64(a.Cap))
		}
	case "append":
		s := args[0].(Slice)
		var add []Val
		switch e := args[1].(type) {
		case Slice:
			add = append(add, x.sliceElems(e)...)
		case Str:
			x.needContent(e, "append")
			for _, bb := range e.B {
				add = append(add, bb)
			}
		}
		if len(add) == 0 {
			return s
		}
		if s.Arr != nil {
			if ob, ok := s.Arr.V.(OpaqueBytes); ok {
				// bytes of unmodelled content followed by more bytes: still opaque, provenance kept
				tail := Str{}
				for _, a := range add {
					if b, ok := a.(Int); ok {
						tail.B = append(tail.B, b)
					}
				}
				op := &Opaque{Kind: "concat", Parts: []Str{{Op: ob.Op}, tail}}
				return Slice{Arr: &Cell{V: OpaqueBytes{op}, Name: "opaque-bytes", Epoch: x.epoch}, Len: 1, Cap: 1}
			}
		}
		if s.Arr != nil && s.Len+len(add) <= s.Cap {
			x.checkFrame(s.Arr.Epoch, "append")
			a := s.Arr.V.(Array)
			n := Array{E: append([]Val{}, a.E...)}
			copy(n.E[s.Off+s.Len:], add)
			s.Arr.V = n
			s.Len += len(add)
			return s
		}
		nc := 2 * s.Cap
		if nc < s.Len+len(add) {
			nc = s.Len + len(add)
		}
		et := c.Args[0].Type().Underlying().(*types.Slice).Elem()
		n := Array{E: make([]Val, nc)}
		z := x.zero(et)
		for i := range n.E {
			n.E[i] = z
		}
		copy(n.E, x.sliceElems(s))
		copy(n.E[s.Len:], add)
		return Slice{Arr: x.newCell(n, "append"), Len: s.Len + len(add), Cap: nc}
	case "copy":
		d := args[0].(Slice)
		var src []Val
		switch e := args[1].(type) {
		case Slice:
			src = x.sliceElems(e)
		case Str:
			x.needContent(e, "copy")
			for _, bb := range e.B {
				src = append(src, bb)
			}
		}
		n := len(src)
		if d.Len < n {
			n = d.Len
		}
		if n > 0 {
			x.checkFrame(d.Arr.Epoch, "copy")
			a := d.Arr.V.(Array)
			na := Array{E: append([]Val{}, a.E...)}
			tmp := append([]Val{}, src[:n]...)
			copy(na.E[d.Off:], tmp)
			d.Arr.V = na
		}
		return mkInt(int64(n))
	case "delete":
		x.mapDelete(args[0].(*Map), args[1])
		return nil
	case "print", "println":
		return nil
	case "ssa:wrapnilchk":
		p := args[0].(Ptr)
		if p.Base == nil {
			x.fail("nil-deref", "")
		}
		return p
	case "min", "max":
	}
	panic(unsupported{"builtin " + b.Name()})
}
