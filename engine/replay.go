package main

import (
	"bufio"
	"context"
	"encoding/json"
	"fmt"
	"os"
	"os/exec"
	"path/filepath"
	"sort"
	"strings"
	"time"

	"golang.org/x/tools/go/ssa"
)

// Native replay: the same harness functions compiled by the ordinary Go
// compiler (build tag verifnative) and driven by a tape of concrete inputs
// taken from the solver's model.

type Case struct {
	ID     string            `json:"id"`
	Entry  string            `json:"entry"`
	Params map[string]string `json:"params"`
	Tape   []string          `json:"tape"`
}

type NativeResult struct {
	ID       string   `json:"id"`
	Outcome  string   `json:"outcome"`
	Detail   string   `json:"detail"`
	Func     string   `json:"func"`
	Notes    []string `json:"notes"`
	Abstract bool     `json:"abstract"`
}

func harnessEntries(pkg *ssa.Package) []string {
	var out []string
	if pkg == nil {
		return out
	}
	for name, m := range pkg.Members {
		f, ok := m.(*ssa.Function)
		if !ok || !strings.HasPrefix(name, "Verif") || len(f.Params) != 0 || f.Signature.Results().Len() != 0 {
			continue
		}
		out = append(out, name)
	}
	sort.Strings(out)
	return out
}

func goEnv() []string {
	return append(os.Environ(), "GOFLAGS=-mod=mod", "GOPROXY=off", "GOSUMDB=off", "GOTOOLCHAIN=local")
}

// runNative replays cases against the natively compiled package.
func runNative(P *Program, cases []Case) (map[string]NativeResult, string, error) {
	res := map[string]NativeResult{}
	if len(cases) == 0 {
		return res, "", nil
	}
	tmp, err := os.MkdirTemp("", "symgo-replay-")
	if err != nil {
		return nil, "", err
	}
	defer os.RemoveAll(tmp)
	var lib, cli []Case
	for _, c := range cases {
		if strings.HasPrefix(c.Entry, "jpgo.") {
			c.Entry = strings.TrimPrefix(c.Entry, "jpgo.")
			cli = append(cli, c)
		} else {
			lib = append(lib, c)
		}
	}
	ov, err := harnessOverlay(true)
	if err != nil {
		return nil, "", err
	}
	gen := func(pkgName string, entries []string, file string) {
		var sb strings.Builder
		sb.WriteString("//go:build verifnative\n\npackage " + pkgName + "\n\nvar verifEntries = map[string]func(){\n")
		for _, e := range entries {
			fmt.Fprintf(&sb, "\t%q: %s,\n", e, e)
		}
		sb.WriteString("}\n")
		os.WriteFile(file, []byte(sb.String()), 0644)
	}
	gen("jmespath", harnessEntries(P.lib), filepath.Join(tmp, "entries_lib.go"))
	ov[filepath.Join(repoDir, "zz_verif_entries_gen.go")] = filepath.Join(tmp, "entries_lib.go")
	if P.cli != nil {
		gen("main", harnessEntries(P.cli), filepath.Join(tmp, "entries_cli.go"))
		ov[filepath.Join(repoDir, "cmd", "jpgo", "zz_verif_entries_gen.go")] = filepath.Join(tmp, "entries_cli.go")
	}
	ovj, _ := json.Marshal(map[string]interface{}{"Replace": ov})
	ovPath := filepath.Join(tmp, "overlay.json")
	os.WriteFile(ovPath, ovj, 0644)
	var logs strings.Builder
	runPkg := func(pkgDir string, cs []Case) error {
		remaining := cs
		for round := 0; len(remaining) > 0 && round < 60; round++ {
			cj, _ := json.Marshal(remaining)
			cpath := filepath.Join(tmp, "cases.json")
			rpath := filepath.Join(tmp, "results.jsonl")
			os.WriteFile(cpath, cj, 0644)
			os.Remove(rpath)
			ctx, cancel := context.WithTimeout(context.Background(), 10*time.Minute)
			cmd := exec.CommandContext(ctx, "go", "test", "-tags", "verifnative", "-vet=off", "-count=1", "-timeout", "9m",
				"-run", "^TestVerifReplay$", "-overlay", ovPath, ".")
			cmd.Dir = pkgDir
			cmd.Env = append(goEnv(), "VERIF_CASES="+cpath, "VERIF_RESULTS="+rpath)
			out, err := cmd.CombinedOutput()
			cancel()
			logs.Write(out)
			f, ferr := os.Open(rpath)
			if ferr != nil {
				return fmt.Errorf("native replay produced no results (%v): %s", err, string(out))
			}
			seen := 0
			sc := bufio.NewScanner(f)
			sc.Buffer(make([]byte, 1<<20), 1<<26)
			for sc.Scan() {
				var r NativeResult
				if json.Unmarshal(sc.Bytes(), &r) == nil && r.ID != "*" {
					res[r.ID] = r
					seen++
				}
			}
			f.Close()
			if seen == 0 {
				// the test binary died on the first remaining case (fatal error such as
				// a stack overflow cannot be recovered): record it and go on
				if len(remaining) == 0 {
					break
				}
				tail := string(out)
				if len(tail) > 400 {
					tail = tail[:400]
				}
				res[remaining[0].ID] = NativeResult{ID: remaining[0].ID, Outcome: "panic", Detail: "native process died: " + tail}
			}
			var rest []Case
			for _, c := range remaining {
				if _, ok := res[c.ID]; !ok {
					rest = append(rest, c)
				}
			}
			remaining = rest
		}
		return nil
	}
	if len(lib) > 0 {
		if err := runPkg(repoDir, lib); err != nil {
			return res, logs.String(), err
		}
	}
	if len(cli) > 0 {
		if err := runPkg(filepath.Join(repoDir, "cmd", "jpgo"), cli); err != nil {
			return res, logs.String(), err
		}
	}
	return res, logs.String(), nil
}
