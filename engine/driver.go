package main

import (
	"bufio"
	"encoding/json"
	"flag"
	"fmt"
	"os"
	"path/filepath"
	"sort"
	"strconv"
	"strings"
	"sync/atomic"
	"time"
)

// CheckSpec describes how one property is decided.
type CheckSpec struct {
	Prop        string
	Level       string
	Panics      bool // panic / unwinding obligations count for this property
	Frame       bool // frame-monitor obligations count
	Jobs        func(tier string) []*Job
	Bounds      func(tier string) map[string]interface{}
	Assumptions []string
	Outside     []string
	Explain     string
	Budget      map[string]time.Duration
}

var panicKinds = map[string]bool{"index-oob": true, "slice-oob": true, "nil-deref": true, "type-assert": true, "div0": true,
	"explicit-panic": true, "uncomparable-eq": true, "negshift": true, "nil-map-write": true, "reflect-panic": true,
	"makeslice-range": true, "recursion-depth": true, "step-budget": true, "unwind": true}

type Known struct {
	Status   string `json:"status"`
	Property string `json:"property"`
	Key      string `json:"key"`
	What     string `json:"what"`
	Commit   string `json:"commit,omitempty"`
}

func loadKnown() []Known {
	var out []Known
	f, err := os.Open(filepath.Join(verifDir(), "known_findings.jsonl"))
	if err != nil {
		return out
	}
	defer f.Close()
	sc := bufio.NewScanner(f)
	for sc.Scan() {
		l := strings.TrimSpace(sc.Text())
		if l == "" || strings.HasPrefix(l, "#") {
			continue
		}
		var k Known
		if json.Unmarshal([]byte(l), &k) == nil {
			out = append(out, k)
		}
	}
	return out
}

type sample struct {
	Harness  string   `json:"harness"`
	Inputs   []string `json:"inputs"`
	Observed []string `json:"observed,omitempty"`
	Native   string   `json:"native,omitempty"`
}

func cmdCheck(args []string) int {
	if len(args) < 1 {
		usage()
	}
	prop := args[0]
	fs := flag.NewFlagSet("check", flag.ExitOnError)
	tier := fs.String("tier", "", "quick|thorough")
	workers := fs.Int("workers", 16, "")
	keep := fs.Bool("keep", false, "keep going after first violation")
	stats := fs.Bool("stats", false, "print per-job statistics")
	debug := fs.Bool("debug", false, "print raw findings and path ends")
	fs.Parse(args[1:])
	if *tier == "" {
		*tier = os.Getenv("VERIF_TIER")
	}
	if *tier == "" {
		*tier = "quick"
	}
	_ = keep
	seed, _ := strconv.Atoi(os.Getenv("VERIF_SEED"))
	spec, ok := specs[prop]
	if !ok {
		fmt.Println("unknown property", prop)
		return 2
	}
	t0 := time.Now()
	P, err := loadProgram()
	if err != nil {
		fmt.Println("INCONCLUSIVE property=" + prop + " reason=load: " + err.Error())
		writeEvidence(spec, *tier, seed, nil, nil, time.Since(t0), []string{"load error: " + err.Error()}, nil, nil, 0, 0, nil)
		return 2
	}
	P.loadSecs = time.Since(t0).Seconds()
	jobs := spec.Jobs(*tier)
	budget := spec.Budget[*tier]
	if budget == 0 {
		budget = 10 * time.Minute
		if *tier == "thorough" {
			budget = 100 * time.Minute
		}
	}
	if m, err := strconv.Atoi(os.Getenv("VERIF_BUDGET_MIN")); err == nil && m > 0 {
		budget = time.Duration(m) * time.Minute
	}
	s := newSched(P, time.Now().Add(budget))
	for _, j := range jobs {
		j.Frame = spec.Frame
		j.Params["__props"] = strings.Join(j.Props, ",")
		j.Params["__frame"] = "0"
		if j.Frame {
			j.Params["__frame"] = "1"
		}
		s.add(j)
	}
	s.run(*workers)

	if *stats {
		js := append([]*Job{}, jobs...)
		sort.Slice(js, func(a, b int) bool { return js[a].paths > js[b].paths })
		for i, j := range js {
			if i < 25 {
				fmt.Printf("STAT paths=%d wall=%.1fs %s\n", j.paths, j.wall.Seconds(), j.describe())
			}
		}
	}
	if *debug {
		for _, j := range jobs {
			fmt.Printf("DEBUG job %s ends=%v\n", j.describe(), j.ends)
			for _, f := range j.allFindings() {
				fmt.Printf("DEBUG   finding %s at %s tape=%v abstract=%v\n", f.Key, f.Where, f.Tape, f.Abstract)
			}
		}
	}
	// ---- collect ----
	var problems []string
	var findings []*Finding
	var cases []Case
	nW := 0
	for ji, j := range jobs {
		if j.incomplete || atomic.LoadInt64(&j.pendingCnt) != 0 {
			problems = append(problems, "exploration of "+j.describe()+" did not finish within the time budget")
		}
		for _, u := range j.unsupp {
			problems = append(problems, "unsupported in "+j.describe()+": "+u)
		}
		if j.nUnknown > 0 {
			problems = append(problems, fmt.Sprintf("%d solver unknown/timeout answers in %s: %v", j.nUnknown, j.describe(), j.unknowns))
		}
		for _, f := range j.allFindings() {
			rel := false
			switch {
			case f.Kind == "assert":
				rel = strings.HasPrefix(f.ID, "MODEL:") || j.assertActive(f.ID)
			case f.Kind == "frame-write":
				rel = spec.Frame
			case panicKinds[f.Kind]:
				rel = spec.Panics
				if !rel && (f.Kind == "unwind" || f.Kind == "step-budget" || f.Kind == "recursion-depth") {
					problems = append(problems, "loop/recursion budget exceeded in "+j.describe()+" at "+f.Func)
				}
			}
			if rel {
				findings = append(findings, f)
				cases = append(cases, Case{ID: fmt.Sprintf("F%d", len(findings)-1), Entry: j.Entry, Params: j.Params, Tape: f.Tape})
			}
		}
		for wi, w := range j.witnesses {
			cases = append(cases, Case{ID: fmt.Sprintf("W%d_%d", ji, wi), Entry: w.Entry, Params: w.Params, Tape: w.Tape})
			nW++
		}
	}
	if len(s.solverErrors) > 0 {
		problems = append(problems, "solver error lines: "+strings.Join(s.solverErrors[:min(3, len(s.solverErrors))], " / "))
	}
	// ---- native replay ----
	native, nlog, nerr := runNative(P, cases)
	if nerr != nil {
		problems = append(problems, "native replay failed: "+nerr.Error())
	}
	_ = nlog
	validated := 0
	var samples []sample
	for ji, j := range jobs {
		for wi, w := range j.witnesses {
			id := fmt.Sprintf("W%d_%d", ji, wi)
			r, ok := native[id]
			if !ok {
				continue
			}
			if r.Abstract {
				continue
			}
			same := r.Outcome == "ok" && len(r.Notes) == len(w.Notes)
			if same {
				for k := range w.Notes {
					if w.Notes[k] != r.Notes[k] {
						same = false
					}
				}
			}
			if same {
				validated++
				if len(samples) < 6 && (wi == 0) {
					samples = append(samples, sample{Harness: j.describe(), Inputs: w.Tape, Observed: w.Notes, Native: "agrees"})
				}
			} else {
				problems = append(problems, fmt.Sprintf("ENGINE-MISMATCH on passing path of %s: tape=%v predicted=%v native=%s %s %v", j.describe(), w.Tape, w.Notes, r.Outcome, r.Detail, r.Notes))
			}
		}
	}
	// ---- classify findings ----
	known := loadKnown()
	type viol struct {
		f      *Finding
		native NativeResult
		path   string
	}
	var violations []viol
	var knownHit []string
	var unconfirmed []string
	seenKey := map[string]bool{}
	for i, f := range findings {
		r, ok := native[fmt.Sprintf("F%d", i)]
		confirmed := false
		if ok {
			switch {
			case f.Kind == "assert":
				confirmed = (r.Outcome == "assert" || r.Outcome == "panic")
			case f.Kind == "frame-write":
				confirmed = r.Outcome == "assert" && r.Detail == "frame-write"
			case f.Kind == "unwind" || f.Kind == "step-budget" || f.Kind == "recursion-depth":
				confirmed = r.Outcome == "timeout" || r.Outcome == "panic"
			default:
				confirmed = r.Outcome == "panic"
			}
		}
		if !confirmed {
			msg := fmt.Sprintf("%s (%s) tape=%v native=%s %s", f.Key, f.Job, f.Tape, r.Outcome, r.Detail)
			if len(f.Abstract) > 0 {
				unconfirmed = append(unconfirmed, msg+" abstract="+strings.Join(f.Abstract, ","))
			} else if nerr == nil {
				problems = append(problems, "ENGINE-MISMATCH: counterexample did not reproduce natively: "+msg)
			}
			continue
		}
		if seenKey[f.Key] {
			continue
		}
		seenKey[f.Key] = true
		isKnown := false
		for _, k := range known {
			if k.Status == "finding" && k.Property == prop && k.Key == f.Key {
				isKnown = true
				knownHit = append(knownHit, f.Key)
				fmt.Printf("KNOWN-FINDING: property=%s %s (%s)\n", prop, f.Key, k.What)
			}
		}
		if !isKnown {
			violations = append(violations, viol{f: f, native: r})
		}
	}
	// ---- write replays, report ----
	exit := 0
	if len(violations) > 0 {
		exit = 1
		dir := filepath.Join(verifDir(), "replays", prop)
		if o := os.Getenv("VERIF_OUT"); o != "" {
			dir = filepath.Join(o, "replays", prop)
		}
		os.RemoveAll(dir)
		for i := range violations {
			v := &violations[i]
			d := filepath.Join(dir, strconv.Itoa(i))
			os.MkdirAll(d, 0755)
			v.path = filepath.Join(d, "case.json")
			cj, _ := json.MarshalIndent(map[string]interface{}{"property": prop, "finding": v.f, "native": v.native,
				"case": Case{ID: "R", Entry: v.f.Entry, Params: v.f.Params, Tape: v.f.Tape}}, "", " ")
			os.WriteFile(v.path, cj, 0644)
			fmt.Printf("VIOLATION property=%s replay=%s\n", prop, v.path)
			fmt.Printf("  what: %s at %s in harness [%s]\n  inputs: %s\n  native: %s %s %s\n", v.f.Key, v.f.Where, v.f.Job, strings.Join(v.f.Tape, " | "), v.native.Outcome, v.native.Detail, v.native.Func)
			if len(samples) < 10 {
				samples = append(samples, sample{Harness: v.f.Job, Inputs: v.f.Tape, Observed: []string{"VIOLATION " + v.f.Key}, Native: v.native.Outcome + " " + v.native.Detail})
			}
		}
	}
	if exit == 0 && len(problems) > 0 {
		exit = 2
	}
	for i, p := range problems {
		if i >= 8 {
			fmt.Printf("INCONCLUSIVE property=%s ... and %d more reasons (see evidence file)\n", prop, len(problems)-i)
			break
		}
		fmt.Println("INCONCLUSIVE property=" + prop + " reason=" + p)
	}
	var paths, branches, obl, steps int64
	funcs := map[string]bool{}
	ends := map[string]int{}
	for _, j := range jobs {
		paths += j.paths
		branches += j.branches
		obl += j.obligations.Load()
		steps += j.steps
		for f := range j.funcs {
			funcs[f] = true
		}
		for k, v := range j.ends {
			ends[k] += v
		}
	}
	if len(samples) == 0 {
		for _, j := range jobs {
			if len(samples) < 3 {
				samples = append(samples, sample{Harness: j.describe(), Observed: []string{fmt.Sprintf("%d paths", j.paths)}})
			}
		}
	}
	fl := []string{}
	for f := range funcs {
		fl = append(fl, f)
	}
	sort.Strings(fl)
	extra := map[string]interface{}{
		"functions_encoded": fl, "solver_queries": s.totalQueries, "solver_time_s": float64(s.solverTime) / 1e9,
		"obligations_discharged": obl, "ssa_steps": steps, "path_ends": ends, "jobs": len(jobs), "load_build_s": P.loadSecs,
		"known_findings_hit": knownHit, "unconfirmed_abstract": unconfirmed, "solver": "z3 4.8.12 (z3 -in, one process per worker)",
		"workers": *workers,
	}
	vn := 0
	for range violations {
		vn++
	}
	writeEvidence(spec, *tier, seed, samples, extra, time.Since(t0), problems, nil, nil, paths, branches, &validated)
	evSetViolations(spec.Prop, vn)
	fmt.Printf("check %s tier=%s: jobs=%d paths=%d solver-decided-branches=%d obligations=%d witnesses-replayed=%d/%d violations=%d known=%d wall=%.1fs exit=%d\n",
		prop, *tier, len(jobs), paths, branches, obl, validated, nW, len(violations), len(knownHit), time.Since(t0).Seconds(), exit)
	return exit
}

var lastEvidence map[string]interface{}

func writeEvidence(spec *CheckSpec, tier string, seed int, samples []sample, extra map[string]interface{}, wall time.Duration,
	problems []string, _ interface{}, _ interface{}, paths, branches int64, validated *int) {
	cov := map[string]interface{}{}
	for k, v := range extra {
		cov[k] = v
	}
	if paths < 1 {
		paths = 0
	}
	cov["states"] = paths
	cov["transitions"] = branches
	v := 0
	if validated != nil {
		v = *validated
	}
	cov["traces_validated_against_impl"] = v
	ss := []interface{}{}
	for _, s := range samples {
		ss = append(ss, s)
	}
	if len(ss) == 0 {
		ss = append(ss, "no sample: the run did not complete")
	}
	cov["samples"] = ss
	cov["exhaustive"] = len(problems) == 0
	cov["problems"] = problems
	if spec.Bounds != nil {
		cov["bounds"] = spec.Bounds(tier)
	}
	cov["outside_the_claim"] = spec.Outside
	cov["explanation"] = spec.Explain
	cov["evaluations"] = paths
	cov["distinct_nontrivial"] = paths
	cov["rule"] = "one evaluation = one complete symbolic execution path of a harness (a set of inputs characterised by its path condition); every path is distinct by construction (different branch decisions) and non-trivial when it reaches the end of the harness or an obligation"
	ev := map[string]interface{}{
		"property_id": spec.Prop, "tier": tier, "seed": seed, "level": spec.Level, "coverage": cov,
		"assumptions": spec.Assumptions, "wall_s": wall.Seconds(), "violations": 0,
	}
	lastEvidence = ev
	flushEvidence(spec.Prop)
}

func evSetViolations(prop string, n int) {
	if lastEvidence != nil {
		lastEvidence["violations"] = n
		flushEvidence(prop)
	}
}

func flushEvidence(prop string) {
	dir := filepath.Join(verifDir(), "evidence")
	if o := os.Getenv("VERIF_OUT"); o != "" {
		dir = filepath.Join(o, "evidence")
	}
	os.MkdirAll(dir, 0755)
	b, _ := json.MarshalIndent(lastEvidence, "", " ")
	os.WriteFile(filepath.Join(dir, prop+".json"), b, 0644)
}

func cmdReplay(args []string) int {
	if len(args) < 1 {
		usage()
	}
	data, err := os.ReadFile(args[0])
	if err != nil {
		fmt.Println(err)
		return 2
	}
	var rc struct {
		Property string `json:"property"`
		Case     Case   `json:"case"`
		Finding  Finding
	}
	if err := json.Unmarshal(data, &rc); err != nil {
		fmt.Println(err)
		return 2
	}
	P, err := loadProgram()
	if err != nil {
		fmt.Println("load:", err)
		return 2
	}
	res, log, err := runNative(P, []Case{rc.Case})
	if err != nil {
		fmt.Println("replay failed:", err, log)
		return 2
	}
	r := res[rc.Case.ID]
	fmt.Printf("replay of %s: harness=%s params=%v\n  inputs: %s\n  native outcome: %s %s %s\n", args[0], rc.Case.Entry, rc.Case.Params, strings.Join(rc.Case.Tape, " | "), r.Outcome, r.Detail, r.Func)
	if r.Outcome == "ok" {
		fmt.Println("  the violation does not reproduce on the current tree")
		return 0
	}
	fmt.Printf("VIOLATION property=%s replay=%s\n", rc.Property, args[0])
	return 1
}
