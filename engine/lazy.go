package main

import (
	"encoding/json"
	"fmt"
	"go/types"
	"math"
	"sort"
	"strconv"
	"strings"
)

// Lazy is a node of a symbolic JSON document that has not been looked at yet.
type Lazy struct {
	id    int
	depth int
	done  bool
	val   Iface
	root  bool
	kvar  string // SMT variable holding the node's kind (0 null .. 5 object)
	excl  uint8  // kinds already excluded on this path
}

const (
	kNull = iota
	kBool
	kNumber
	kString
	kArray
	kObject
)

var (
	tIface  types.Type
	tSliceI types.Type
	tMapSI  types.Type
)

func initTypes() {
	tIface = types.NewInterfaceType(nil, nil).Complete()
	tSliceI = types.NewSlice(tIface)
	tMapSI = types.NewMap(types.Typ[types.String], tIface)
}

func (x *Exec) newLazy(depth int) Iface {
	l := &Lazy{id: x.nlazy, depth: depth}
	x.nlazy++
	return Iface{L: l}
}

// choose: multiway choice 0..n-1 on a fresh variable (n-1 binary decisions).
func (x *Exec) choose(name string, n int) int {
	if n <= 1 {
		return 0
	}
	v := x.fresh("(_ BitVec 8)", name)
	x.sol.send(fmt.Sprintf("(assert (bvult %s (_ bv%d 8)))\n", v, n))
	for k := 0; k < n-1; k++ {
		if x.decideFree(fmt.Sprintf("(= %s (_ bv%d 8))", v, k), true) {
			return k
		}
	}
	return n - 1
}

// utf8Valid returns an SMT formula: the n byte terms form valid UTF-8.
func utf8Valid(b []string) string {
	n := len(b)
	if n == 0 {
		return "true"
	}
	in := func(t string, lo, hi int) string {
		return fmt.Sprintf("(and (bvuge %s #x%02x) (bvule %s #x%02x))", t, lo, t, hi)
	}
	cont := func(t string) string { return in(t, 0x80, 0xBF) }
	// ok[i] = bytes i.. form valid utf8
	ok := make([]string, n+1)
	ok[n] = "true"
	for i := n - 1; i >= 0; i-- {
		alts := []string{"(and (bvult " + b[i] + " #x80) " + ok[i+1] + ")"}
		if i+1 < n {
			alts = append(alts, "(and "+in(b[i], 0xC2, 0xDF)+" "+cont(b[i+1])+" "+ok[i+2]+")")
		}
		if i+2 < n {
			alts = append(alts,
				"(and (= "+b[i]+" #xe0) "+in(b[i+1], 0xA0, 0xBF)+" "+cont(b[i+2])+" "+ok[i+3]+")",
				"(and "+in(b[i], 0xE1, 0xEC)+" "+cont(b[i+1])+" "+cont(b[i+2])+" "+ok[i+3]+")",
				"(and (= "+b[i]+" #xed) "+in(b[i+1], 0x80, 0x9F)+" "+cont(b[i+2])+" "+ok[i+3]+")",
				"(and "+in(b[i], 0xEE, 0xEF)+" "+cont(b[i+1])+" "+cont(b[i+2])+" "+ok[i+3]+")")
		}
		if i+3 < n {
			alts = append(alts,
				"(and (= "+b[i]+" #xf0) "+in(b[i+1], 0x90, 0xBF)+" "+cont(b[i+2])+" "+cont(b[i+3])+" "+ok[i+4]+")",
				"(and "+in(b[i], 0xF1, 0xF3)+" "+cont(b[i+1])+" "+cont(b[i+2])+" "+cont(b[i+3])+" "+ok[i+4]+")",
				"(and (= "+b[i]+" #xf4) "+in(b[i+1], 0x80, 0x8F)+" "+cont(b[i+2])+" "+cont(b[i+3])+" "+ok[i+4]+")")
		}
		ok[i] = "(or " + strings.Join(alts, " ") + ")"
	}
	return ok[0]
}

// symString makes a string of exactly n fresh bytes (valid UTF-8 if asked).
func (x *Exec) symString(n int, hint string, validUTF8 bool) Str {
	s := Str{}
	terms := []string{}
	for k := 0; k < n; k++ {
		t := x.fresh("(_ BitVec 8)", fmt.Sprintf("%s_%d", hint, k))
		s.B = append(s.B, Int{W: 8, T: t})
		terms = append(terms, t)
	}
	if validUTF8 && n > 0 {
		x.sol.send("(assert " + utf8Valid(terms) + ")\n")
	}
	return s
}

func (x *Exec) symFloat(hint string) Flt {
	f := x.fresh("(_ FloatingPoint 11 53)", hint)
	x.sol.send("(assert (not (fp.isNaN " + f + ")))\n(assert (not (fp.isInfinite " + f + ")))\n")
	if b := x.job.NumBound; b > 0 {
		bt := Flt{C: b}.term()
		x.sol.send("(assert (fp.leq (fp.abs " + f + ") " + bt + "))\n")
	}
	return Flt{T: f}
}

func (x *Exec) kindVar(l *Lazy) string {
	if l.kvar == "" {
		l.kvar = x.fresh("(_ BitVec 8)", fmt.Sprintf("kind%d", l.id))
		x.sol.send("(assert (bvult " + l.kvar + " (_ bv6 8)))\n")
	}
	return l.kvar
}

// lazyIs decides whether an unmaterialised node has kind k. Only this one
// question is put to the solver; the node stays lazy when the answer is no
// (unless a single kind remains).
func (x *Exec) lazyIs(l *Lazy, k int) bool {
	if l.done {
		return kindOfIface(l.val) == k
	}
	if l.excl&(1<<uint(k)) != 0 {
		return false
	}
	v := x.kindVar(l)
	if x.decideFree(fmt.Sprintf("(= %s (_ bv%d 8))", v, k), true) {
		x.materialize(l, k)
		return true
	}
	l.excl |= 1 << uint(k)
	// one kind left: forced
	rem := -1
	cnt := 0
	for q := 0; q < 6; q++ {
		if l.excl&(1<<uint(q)) == 0 {
			rem = q
			cnt++
		}
	}
	if cnt == 1 {
		x.sol.send(fmt.Sprintf("(assert (= %s (_ bv%d 8)))\n", v, rem))
		x.materialize(l, rem)
	}
	return false
}

func kindOfIface(v Iface) int {
	if v.T == nil {
		return kNull
	}
	switch v.V.(type) {
	case Bool:
		return kBool
	case Flt:
		return kNumber
	case Str:
		return kString
	case Slice:
		return kArray
	case *Map:
		return kObject
	}
	return -1
}

// jsonKindOfType: which JSON kind a Go type is (-1: none).
func jsonKindOfType(t types.Type) int {
	switch {
	case types.Identical(t, types.Typ[types.Bool]):
		return kBool
	case types.Identical(t, types.Typ[types.Float64]):
		return kNumber
	case types.Identical(t, types.Typ[types.String]):
		return kString
	case types.Identical(t, tSliceI):
		return kArray
	case types.Identical(t, tMapSI):
		return kObject
	}
	return -1
}

// materialize gives the node its one-level value of kind k.
func (x *Exec) materialize(l *Lazy, kind int) {
	l.done = true
	j := x.job
	switch kind {
	case kNull:
		l.val = Iface{}
	case kBool:
		l.val = Iface{T: types.Typ[types.Bool], V: Bool{T: x.fresh("Bool", fmt.Sprintf("b%d", l.id))}}
	case kNumber:
		l.val = Iface{T: types.Typ[types.Float64], V: x.symFloat(fmt.Sprintf("f%d", l.id))}
	case kString:
		n := x.choose(fmt.Sprintf("slen%d", l.id), j.S+1)
		l.val = Iface{T: types.Typ[types.String], V: x.symString(n, fmt.Sprintf("s%d", l.id), true)}
	case kArray:
		n := 0
		if l.depth > 0 {
			n = x.choose(fmt.Sprintf("alen%d", l.id), j.W+1)
		}
		a := Array{E: make([]Val, n+1)}
		for k := 0; k < n; k++ {
			a.E[k] = x.newLazy(l.depth - 1)
		}
		a.E[n] = Iface{T: types.Typ[types.String], V: strOf("\x00spare")}
		l.val = Iface{T: tSliceI, V: Slice{Arr: &Cell{V: a, Name: "docarr", Epoch: 0}, Len: n, Cap: n + 1}}
	case kObject:
		m := &Map{Epoch: 0, Doc: true, PDepth: l.depth - 1, PID: l.id}
		if l.depth > 0 {
			if l.root || j.InnerKeys == nil {
				m.Pend = append([]string{}, j.Keys...)
			} else {
				m.Pend = append([]string{}, j.InnerKeys...)
			}
		}
		l.val = Iface{T: tMapSI, V: m}
	}
}

// decideKey settles whether a not-yet-examined member of a document object is present.
func (x *Exec) decideKey(m *Map, k string) {
	idx := -1
	for i, p := range m.Pend {
		if p == k {
			idx = i
		}
	}
	if idx < 0 {
		return
	}
	m.Pend = append(append([]string{}, m.Pend[:idx]...), m.Pend[idx+1:]...)
	p := Bool{T: x.fresh("Bool", fmt.Sprintf("has%d_%x", m.PID, k))}
	if x.decideFree(p.T, true) {
		m.Keys = append(append([]Val{}, m.Keys...), strOf(k))
		m.Vals = append(append([]Val{}, m.Vals...), x.newLazy(m.PDepth))
	}
}

// forceKeys settles every member (needed by len, range, equality).
func (x *Exec) forceKeys(m *Map) {
	for m != nil && len(m.Pend) > 0 {
		x.decideKey(m, m.Pend[0])
	}
}

// resolve materialises one level of a lazy node completely: its kind, and
// for containers the length / key presence; children stay lazy.
func (x *Exec) resolve(i Iface) Iface {
	if i.L == nil {
		return i
	}
	l := i.L
	for k := 0; k < 6 && !l.done; k++ {
		x.lazyIs(l, k)
	}
	if !l.done {
		panic("lazy node left without a kind")
	}
	return l.val
}

// ---- models ----
// parseModel reads the answer of (get-value (t1 t2 ...)): a list of
// (term value) pairs, where both sides are arbitrary s-expressions.
func parseModel(m string) map[string]string {
	res := map[string]string{}
	n := len(m)
	i := 0
	skip := func() {
		for i < n && (m[i] == ' ' || m[i] == '\n' || m[i] == '\r' || m[i] == '\t') {
			i++
		}
	}
	sexpr := func() string {
		skip()
		st := i
		if i < n && m[i] == '(' {
			d := 0
			for i < n {
				if m[i] == '(' {
					d++
				} else if m[i] == ')' {
					d--
					if d == 0 {
						i++
						break
					}
				}
				i++
			}
			return m[st:i]
		}
		for i < n && m[i] != ' ' && m[i] != '\n' && m[i] != ')' && m[i] != '(' {
			i++
		}
		return m[st:i]
	}
	skip()
	if i >= n || m[i] != '(' {
		return res
	}
	i++
	for {
		skip()
		if i >= n || m[i] != '(' {
			break
		}
		i++
		k := sexpr()
		v := sexpr()
		skip()
		if i < n && m[i] == ')' {
			i++
		}
		res[normTerm(k)] = strings.TrimSpace(v)
	}
	return res
}

func normTerm(t string) string { return strings.Join(strings.Fields(t), " ") }

// collectTerms gathers the SMT terms occurring in a value.
func (x *Exec) collectTerms(v Val, acc map[string]bool, depth int) {
	if depth > 12 {
		return
	}
	switch vv := v.(type) {
	case Int:
		if vv.T != "" {
			acc[vv.T] = true
		}
	case Bool:
		if vv.T != "" {
			acc[vv.T] = true
		}
	case Flt:
		if vv.T != "" {
			acc[vv.T] = true
		}
	case Str:
		for _, b := range vv.B {
			if b.T != "" {
				acc[b.T] = true
			}
		}
	case Iface:
		if vv.L != nil {
			if vv.L.done {
				x.collectTerms(vv.L.val, acc, depth+1)
			} else if vv.L.kvar != "" {
				acc[vv.L.kvar] = true
			}
			return
		}
		x.collectTerms(vv.V, acc, depth+1)
	case Slice:
		for _, e := range x.sliceElems(vv) {
			x.collectTerms(e, acc, depth+1)
		}
	case *Map:
		if vv != nil {
			for i := range vv.Keys {
				x.collectTerms(vv.Keys[i], acc, depth+1)
				x.collectTerms(vv.Vals[i], acc, depth+1)
			}
		}
	case Struct:
		for _, f := range vv.F {
			x.collectTerms(f, acc, depth+1)
		}
	case Array:
		for _, e := range vv.E {
			x.collectTerms(e, acc, depth+1)
		}
	case Ptr:
		if vv.Base != nil {
			x.collectTerms(x.loadPath(vv.Base.V, vv.Path), acc, depth+1)
		}
	case Tuple:
		for _, e := range vv {
			x.collectTerms(e, acc, depth+1)
		}
	}
}

// modelOf asks the solver (which must just have answered sat) for the values
// of every term occurring in the tape and in the given extra values.
func (x *Exec) modelOf(extra []Val) map[string]string {
	acc := map[string]bool{}
	for _, e := range x.tape {
		x.collectTerms(e.V, acc, 0)
	}
	for _, v := range extra {
		x.collectTerms(v, acc, 0)
	}
	if len(acc) == 0 {
		return map[string]string{}
	}
	terms := make([]string, 0, len(acc))
	for t := range acc {
		terms = append(terms, t)
	}
	sort.Strings(terms)
	m := parseModel(x.sol.getValues(terms))
	return m
}

func lookupModel(m map[string]string, t string) (string, bool) {
	v, ok := m[t]
	if !ok {
		v, ok = m[normTerm(t)]
	}
	return v, ok
}

func modelBV(v string) uint64 {
	var r uint64
	if len(v) > 2 && v[:2] == "#x" {
		r, _ = strconv.ParseUint(v[2:], 16, 64)
	} else if len(v) > 2 && v[:2] == "#b" {
		r, _ = strconv.ParseUint(v[2:], 2, 64)
	} else if strings.HasPrefix(v, "(_ bv") {
		f := strings.Fields(v[5:])
		r, _ = strconv.ParseUint(f[0], 10, 64)
	}
	return r
}

func modelFloat(v string) float64 {
	v = strings.TrimSpace(v)
	if strings.HasPrefix(v, "(fp ") {
		f := strings.Fields(strings.TrimSuffix(v[4:], ")"))
		if len(f) == 3 {
			bits := modelBV(f[0])<<63 | modelBV(f[1])<<52 | modelBV(f[2])
			return math.Float64frombits(bits)
		}
	}
	switch {
	case strings.HasPrefix(v, "(_ +zero"):
		return 0
	case strings.HasPrefix(v, "(_ -zero"):
		return math.Copysign(0, -1)
	case strings.HasPrefix(v, "(_ +oo"):
		return math.Inf(1)
	case strings.HasPrefix(v, "(_ -oo"):
		return math.Inf(-1)
	case strings.HasPrefix(v, "(_ NaN"):
		return math.NaN()
	}
	return 0
}

// concretise a value under a model
func (x *Exec) mInt(i Int, m map[string]string) uint64 {
	if i.T == "" {
		return i.uval()
	}
	if c, ok := x.known[i.T]; ok {
		return c & mask(i.W)
	}
	if v, ok := lookupModel(m, i.T); ok {
		return modelBV(v) & mask(i.W)
	}
	return 0
}
func (x *Exec) mBool(b Bool, m map[string]string) bool {
	if b.T == "" {
		return b.C
	}
	v, _ := lookupModel(m, b.T)
	return v == "true"
}
func (x *Exec) mFloat(f Flt, m map[string]string) float64 {
	if f.T == "" {
		return f.C
	}
	v, _ := lookupModel(m, f.T)
	return modelFloat(v)
}
func (x *Exec) mStr(s Str, m map[string]string) string {
	bs := make([]byte, len(s.B))
	for i, b := range s.B {
		bs[i] = byte(x.mInt(b, m))
	}
	return string(bs)
}

func fmtFloat(f float64) string {
	if f == 0 && math.Signbit(f) {
		return "-0"
	}
	return strconv.FormatFloat(f, 'g', -1, 64)
}

// renderJSON renders an interface value (possibly lazy) as JSON text under
// model m. Unmaterialised nodes are null.
func (x *Exec) renderJSON(v Iface, m map[string]string) string {
	x.rdepth++
	defer func() { x.rdepth-- }()
	if x.rdepth > 40 {
		return "null" // cyclic value (only a faulty implementation can build one)
	}
	if v.L != nil {
		if !v.L.done {
			if v.L.kvar != "" {
				kv, _ := lookupModel(m, v.L.kvar)
				switch modelBV(kv) {
				case kBool:
					return "false"
				case kNumber:
					return "0"
				case kString:
					return "\"\""
				case kArray:
					return "[]"
				case kObject:
					return "{}"
				}
			}
			return "null"
		}
		return x.renderJSON(v.L.val, m)
	}
	if v.T == nil {
		return "null"
	}
	switch vv := v.V.(type) {
	case Bool:
		if x.mBool(vv, m) {
			return "true"
		}
		return "false"
	case Flt:
		return fmtFloat(x.mFloat(vv, m))
	case Str:
		b, _ := json.Marshal(x.mStr(vv, m))
		return string(b)
	case Slice:
		parts := []string{}
		for _, e := range x.sliceElems(vv) {
			parts = append(parts, x.renderJSON(e.(Iface), m))
		}
		return "[" + strings.Join(parts, ",") + "]"
	case *Map:
		parts := []string{}
		for i := range vv.Keys {
			kb, _ := json.Marshal(x.mStr(vv.Keys[i].(Str), m))
			parts = append(parts, string(kb)+":"+x.renderJSON(vv.Vals[i].(Iface), m))
		}
		sort.Strings(parts)
		return "{" + strings.Join(parts, ",") + "}"
	}
	return fmt.Sprintf("\"<non-json %T>\"", v.V)
}

// renderTape turns the path's nondeterministic inputs into concrete text.
func (x *Exec) renderTape(m map[string]string) []string {
	out := make([]string, len(x.tape))
	for i, e := range x.tape {
		switch e.Kind {
		case "int":
			iv := e.V.(Int)
			c := Int{W: iv.W, S: iv.S, C: x.mInt(iv, m)}
			if iv.S {
				out[i] = "int:" + strconv.FormatInt(c.sval(), 10)
			} else {
				out[i] = "int:" + strconv.FormatUint(c.uval(), 10)
			}
		case "bool":
			out[i] = "bool:" + strconv.FormatBool(x.mBool(e.V.(Bool), m))
		case "float":
			out[i] = "float:" + strconv.FormatUint(math.Float64bits(x.mFloat(e.V.(Flt), m)), 16)
		case "str":
			out[i] = "str:" + fmt.Sprintf("%x", x.mStr(e.V.(Str), m))
		case "json":
			out[i] = "json:" + x.renderJSON(e.V.(Iface), m)
		}
	}
	return out
}

// renderVal: canonical text of an arbitrary value under a model (for notes).
func (x *Exec) renderVal(v Val, m map[string]string) string {
	x.rdepth++
	defer func() { x.rdepth-- }()
	if x.rdepth > 40 {
		return "<cycle>"
	}
	switch vv := v.(type) {
	case nil:
		return "nil"
	case Int:
		c := Int{W: vv.W, S: vv.S, C: x.mInt(vv, m)}
		if vv.S {
			return strconv.FormatInt(c.sval(), 10)
		}
		return strconv.FormatUint(c.uval(), 10)
	case Bool:
		return strconv.FormatBool(x.mBool(vv, m))
	case Flt:
		return "f" + strconv.FormatUint(math.Float64bits(x.mFloat(vv, m)), 16)
	case Str:
		if vv.Op != nil {
			return "<opaque>"
		}
		return fmt.Sprintf("%q", x.mStr(vv, m))
	case Iface:
		if vv.L != nil {
			if !vv.L.done {
				if vv.L.kvar != "" {
					kv, _ := lookupModel(m, vv.L.kvar)
					switch modelBV(kv) {
					case kBool:
						return "false"
					case kNumber:
						return "f0"
					case kString:
						return "\"\""
					case kArray:
						return "[]"
					case kObject:
						return "{}"
					}
				}
				return "null"
			}
			return x.renderVal(vv.L.val, m)
		}
		if vv.T == nil {
			return "null"
		}
		if _, isErr := vv.V.(Ptr); isErr && types.Implements(vv.T, x.P.errorType) {
			return "error"
		}
		if types.Implements(vv.T, x.P.errorType) {
			return "error"
		}
		return x.renderVal(vv.V, m)
	case Slice:
		parts := []string{}
		for _, e := range x.sliceElems(vv) {
			parts = append(parts, x.renderVal(e, m))
		}
		return "[" + strings.Join(parts, ",") + "]"
	case *Map:
		if vv == nil {
			return "{}"
		}
		parts := []string{}
		for i := range vv.Keys {
			parts = append(parts, x.renderVal(vv.Keys[i], m)+":"+x.renderVal(vv.Vals[i], m))
		}
		sort.Strings(parts)
		return "{" + strings.Join(parts, ",") + "}"
	case Struct:
		parts := []string{}
		for _, f := range vv.F {
			parts = append(parts, x.renderVal(f, m))
		}
		return "<" + strings.Join(parts, " ") + ">"
	case Ptr:
		if vv.Base == nil {
			return "nilptr"
		}
		return "&" + x.renderVal(x.loadPath(vv.Base.V, vv.Path), m)
	}
	return fmt.Sprintf("<%T>", v)
}
