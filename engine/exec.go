package main

import (
	"fmt"
	"go/constant"
	"go/token"
	"go/types"
	"strings"

	"golang.org/x/tools/go/ssa"
)

// control-flow signals (Go panics used to unwind the interpreter)
type pathEnd struct{ why string }
type unsupported struct{ msg string }
type userPanic struct{ v Val }

type TapeEntry struct {
	Kind string // int, byte, bool, float, json, str
	V    Val
}

type Note struct {
	Tag string
	V   Val
}

// Exec is one worker's interpreter state.
type Exec struct {
	P       *Program
	sched   *Sched
	sol     *Solver
	sols    map[string]*Solver
	defaultSolver string
	job     *Job
	globals map[*ssa.Global]*Cell
	tables  map[string]string
	snapC   map[*Cell]Val
	snapM   map[*Map][2][]Val

	// per path
	prefix   []bool
	pos      int
	decs     []bool
	pending  [][]bool
	vars     []string
	nvar     int
	ntmp     int
	named    map[string]string
	known    map[string]uint64
	notEq    map[string]map[uint64]bool
	nlazy    int
	roots    []*Lazy
	tape     []TapeEntry
	notes    []Note
	steps    int
	depth    int
	epoch    int
	monitor  bool
	catching int
	abstract []string // reasons this path used an unrealisable stub result
	lockDepth int // >0 while a sync.Mutex / RWMutex is held: writes are synchronised
	rdepth   int
	initOK   map[string]bool
	pools    map[string][]Val
	syncMaps map[string]*Map
	onceDone map[string]bool
	curFn    []*ssa.Function
	curIn    ssa.Instruction
	fnNames  map[*ssa.Function]string

	// stats (accumulated by worker, merged into job)
	branches int
	funcs    map[*ssa.Function]bool
}

const maxSteps = 3000000
const maxDepth = 400

func (x *Exec) fresh(sort string, hint string) string {
	n := fmt.Sprintf("v%d_%s", x.nvar, hint)
	x.nvar++
	x.sol.send("(declare-const " + n + " " + sort + ")\n")
	x.vars = append(x.vars, n)
	return n
}

// nmI / nmB give long terms a solver-side name (declare-const + equality,
// never define-fun: z3 4.8.12 macro-expands those).
func (x *Exec) nmI(i Int) Int {
	if len(i.T) > 56 {
		if n, ok := x.named[i.T]; ok {
			i.T = n
			return i
		}
		n := fmt.Sprintf("t%d", x.ntmp)
		x.ntmp++
		x.sol.send(fmt.Sprintf("(declare-const %s (_ BitVec %d))\n(assert (= %s %s))\n", n, i.W, n, i.T))
		x.named[i.T] = n
		x.vars = append(x.vars, n)
		i.T = n
	}
	return i
}
func (x *Exec) nmB(b Bool) Bool {
	if len(b.T) > 56 {
		if n, ok := x.named[b.T]; ok {
			return Bool{T: n}
		}
		n := fmt.Sprintf("t%d", x.ntmp)
		x.ntmp++
		x.sol.send(fmt.Sprintf("(declare-const %s Bool)\n(assert (= %s %s))\n", n, n, b.T))
		x.named[b.T] = n
		x.vars = append(x.vars, n)
		return Bool{T: n}
	}
	return b
}
func (x *Exec) nmF(f Flt) Flt {
	if len(f.T) > 56 {
		if n, ok := x.named[f.T]; ok {
			return Flt{T: n}
		}
		n := fmt.Sprintf("t%d", x.ntmp)
		x.ntmp++
		x.sol.send(fmt.Sprintf("(declare-const %s (_ FloatingPoint 11 53))\n(assert (= %s %s))\n", n, n, f.T))
		x.named[f.T] = n
		x.vars = append(x.vars, n)
		return Flt{T: n}
	}
	return f
}

func (x *Exec) and(a, b Bool) Bool {
	if a.T == "" {
		if !a.C {
			return Bool{C: false}
		}
		return b
	}
	if b.T == "" {
		if !b.C {
			return Bool{C: false}
		}
		return a
	}
	return x.nmB(Bool{T: "(and " + a.T + " " + b.T + ")"})
}
func (x *Exec) or(a, b Bool) Bool {
	if a.T == "" {
		if a.C {
			return Bool{C: true}
		}
		return b
	}
	if b.T == "" {
		if b.C {
			return Bool{C: true}
		}
		return a
	}
	return x.nmB(Bool{T: "(or " + a.T + " " + b.T + ")"})
}
func not(a Bool) Bool {
	if a.T == "" {
		return Bool{C: !a.C}
	}
	if strings.HasPrefix(a.T, "(not ") {
		return Bool{T: a.T[5 : len(a.T)-1]}
	}
	return Bool{T: "(not " + a.T + ")"}
}

// subst replaces a plain variable whose value is pinned by the path
// condition with that constant.
func (x *Exec) subst(i Int) Int {
	if i.T != "" {
		if c, ok := x.known[i.T]; ok {
			return Int{W: i.W, S: i.S, C: c & mask(i.W)}
		}
	}
	return i
}

// decide a symbolic branch: replay the prefix, otherwise ask the solver
// which sides are feasible and queue the alternative.
func (x *Exec) decide(term string) bool {
	if x.pos < len(x.prefix) {
		d := x.prefix[x.pos]
		x.pos++
		x.decs = append(x.decs, d)
		x.assert(term, d)
		return d
	}
	x.branches++
	tf := x.sol.feasible(term)
	var d bool
	if tf == "unsat" {
		// then the negation must hold (the path itself is feasible)
		d = false
	} else {
		ff := x.sol.feasible("(not " + term + ")")
		if tf == "unknown" || ff == "unknown" {
			x.job.noteUnknown("branch feasibility at " + x.where())
		}
		switch {
		case ff == "unsat":
			d = true
		default:
			alt := append(append([]bool{}, x.decs...), false)
			x.sched.push(x.job, alt)
			d = true
		}
	}
	x.pos++
	x.decs = append(x.decs, d)
	x.assert(term, d)
	return d
}
// decideFree: a decision on a fresh choice variable that occurs in no other
// constraint (kind of a lazy node, presence of a key, a length, a
// permutation). Both sides are feasible by construction, so no solver query
// is needed to fork.
func (x *Exec) decideFree(term string, canFalse bool) bool {
	if x.pos < len(x.prefix) {
		d := x.prefix[x.pos]
		x.pos++
		x.decs = append(x.decs, d)
		x.assert(term, d)
		return d
	}
	x.branches++
	if canFalse {
		alt := append(append([]bool{}, x.decs...), false)
		x.sched.push(x.job, alt)
	}
	x.pos++
	x.decs = append(x.decs, true)
	x.assert(term, true)
	return true
}

func (x *Exec) assert(term string, d bool) {
	if d {
		x.sol.send("(assert " + term + ")\n")
	} else {
		x.sol.send("(assert (not " + term + "))\n")
	}
}

func (x *Exec) truth(b Bool) bool {
	if b.T == "" {
		return b.C
	}
	d := x.decide(b.T)
	if b.EqVar != "" {
		if d {
			x.known[b.EqVar] = b.EqC
		} else {
			s := x.notEq[b.EqVar]
			if s == nil {
				s = map[uint64]bool{}
				x.notEq[b.EqVar] = s
			}
			s[b.EqC] = true
		}
	}
	return d
}

func (x *Exec) fnName() string {
	if len(x.curFn) == 0 {
		return "?"
	}
	return shortFn(x.curFn[len(x.curFn)-1])
}

// innermost function that belongs to the code under test (not harness, not stdlib)
func (x *Exec) sutFn() string {
	for i := len(x.curFn) - 1; i >= 0; i-- {
		f := x.curFn[i]
		if f.Pkg != nil && x.P.isSUT(f) {
			return shortFn(f)
		}
	}
	return x.fnName()
}

func shortFn(f *ssa.Function) string {
	s := f.String()
	s = strings.Replace(s, "github.com/jmespath/go-jmespath/cmd/jpgo.", "jpgo.", -1)
	s = strings.Replace(s, "github.com/jmespath/go-jmespath.", "", -1)
	return s
}

// mustNot: obligation that term is unsatisfiable on this path; a model is a
// finding. The path then continues under (not term).
func (x *Exec) mustNot(term string, kind string, id string) {
	if term == "false" {
		return
	}
	if x.pos < len(x.prefix) && term != "true" {
		// still replaying the decision prefix: this obligation was already
		// discharged on the path this prefix was forked from
		x.sol.send("(assert (not " + term + "))\n")
		return
	}
	x.job.obligations.Add(1)
	if term == "true" {
		x.reportWithModel(kind, id, "true")
		panic(pathEnd{kind})
	}
	x.sol.send("(push 1)\n(assert " + term + ")\n")
	r := x.sol.check()
	if r == "sat" {
		x.reportInScope(kind, id)
	} else if r == "unknown" {
		x.job.noteUnknown("obligation " + kind + " " + id + " at " + x.where())
	}
	x.sol.send("(pop 1)\n")
	x.sol.send("(assert (not " + term + "))\n")
	if r != "unsat" {
		if x.sol.check() == "unsat" {
			panic(pathEnd{"only-" + kind})
		}
	}
}

// fail: unconditional obligation failure on this path.
func (x *Exec) fail(kind, id string) {
	x.job.obligations.Add(1)
	x.reportWithModel(kind, id, "true")
	panic(pathEnd{kind})
}

func (x *Exec) reportWithModel(kind, id, term string) {
	x.sol.send("(push 1)\n(assert " + term + ")\n")
	if r := x.sol.check(); r == "sat" {
		x.reportInScope(kind, id)
	} else if r == "unknown" {
		x.job.noteUnknown("model for " + kind)
	}
	x.sol.send("(pop 1)\n")
}

// reportInScope: the solver has just answered sat; fetch values and record.
func (x *Exec) reportInScope(kind, id string) {
	fn := x.sutFn()
	key := kind + "@" + fn
	if id != "" {
		key = kind + ":" + id + "@" + fn
		if ex, ok := x.job.Params["expr"]; ok && !x.P.isSUTName("") {
			key = kind + ":" + id + "@expr=" + ex
		}
	}
	if !x.job.wantFinding(key) {
		return
	}
	m := x.modelOf(nil)
	f := &Finding{Kind: kind, ID: id, Func: fn, Where: x.where(), Key: key,
		Tape: x.renderTape(m), Abstract: append([]string{}, x.abstract...), Job: x.job.describe()}
	x.job.addFinding(f)
}

type frame struct {
	fn     *ssa.Function
	env    map[ssa.Value]Val
	prev   *ssa.BasicBlock
	loops  map[*ssa.BasicBlock]int
	defers []func()
}

func (x *Exec) zero(t types.Type) Val {
	switch t := t.Underlying().(type) {
	case *types.Basic:
		switch {
		case t.Info()&types.IsBoolean != 0:
			return Bool{}
		case t.Info()&types.IsInteger != 0:
			w, s := intInfo(t)
			return Int{W: w, S: s}
		case t.Info()&types.IsString != 0:
			return Str{}
		case t.Kind() == types.UnsafePointer:
			return Ptr{}
		case t.Info()&types.IsFloat != 0:
			return Flt{}
		case t.Kind() == types.UntypedNil:
			return Iface{}
		}
	case *types.Struct:
		s := Struct{F: make([]Val, t.NumFields())}
		for i := range s.F {
			s.F[i] = x.zero(t.Field(i).Type())
		}
		return s
	case *types.Array:
		a := Array{E: make([]Val, t.Len())}
		for i := range a.E {
			a.E[i] = x.zero(t.Elem())
		}
		return a
	case *types.Pointer:
		return Ptr{}
	case *types.Slice:
		return Slice{}
	case *types.Map:
		return (*Map)(nil)
	case *types.Interface:
		return Iface{}
	case *types.Signature:
		return Fn{}
	case *types.Tuple:
		tp := make(Tuple, t.Len())
		for i := range tp {
			tp[i] = x.zero(t.At(i).Type())
		}
		return tp
	case *types.Chan:
		return Ptr{}
	}
	panic(unsupported{"zero value of " + t.String()})
}

func (x *Exec) constVal(c *ssa.Const) Val {
	t := c.Type().Underlying()
	if c.Value == nil {
		return x.zero(c.Type())
	}
	switch t := t.(type) {
	case *types.Basic:
		switch {
		case t.Info()&types.IsBoolean != 0:
			return Bool{C: constant.BoolVal(c.Value)}
		case t.Info()&types.IsInteger != 0:
			w, s := intInfo(t)
			var v uint64
			if s {
				v = uint64(c.Int64())
			} else {
				v = c.Uint64()
			}
			return Int{W: w, S: s, C: v & mask(w)}
		case t.Info()&types.IsString != 0:
			return strOf(constant.StringVal(c.Value))
		case t.Info()&types.IsFloat != 0:
			f, _ := constant.Float64Val(c.Value)
			return Flt{C: f}
		}
	}
	panic(unsupported{"const " + c.String()})
}

func (x *Exec) get(fr *frame, v ssa.Value) Val {
	switch v := v.(type) {
	case *ssa.Const:
		return x.constVal(v)
	case *ssa.Global:
		c, ok := x.globals[v]
		if !ok {
			panic(unsupported{"global of uninitialised package: " + v.String()})
		}
		return Ptr{Base: c}
	case *ssa.Function:
		return Fn{F: v}
	case *ssa.Builtin:
		return v
	}
	r, ok := fr.env[v]
	if !ok {
		panic("unbound " + v.Name() + " in " + fr.fn.String())
	}
	return r
}

// where: source position of the instruction being executed (computed on demand).
func (x *Exec) where() string {
	if x.curIn == nil {
		return "?"
	}
	return x.pos_(x.curIn)
}

func (x *Exec) fname(f *ssa.Function) string {
	if n, ok := x.fnNames[f]; ok {
		return n
	}
	n := f.String()
	x.fnNames[f] = n
	return n
}

func (x *Exec) pos_(in ssa.Instruction) string {
	p := x.P.prog.Fset.Position(in.Pos())
	if !p.IsValid() {
		return shortFn(in.Parent())
	}
	f := p.Filename
	if i := strings.LastIndex(f, "/"); i >= 0 {
		f = f[i+1:]
	}
	return fmt.Sprintf("%s:%d", f, p.Line)
}

// ---- calls ----
func (x *Exec) call(fn *ssa.Function, args []Val, env []Val) Val {
	if len(fn.Blocks) == 0 {
		if v, ok := x.intrinsic(fn, args); ok {
			return v
		}
		if v, ok := x.external(fn, args); ok {
			return v
		}
		panic(unsupported{"body-less function " + fn.String()})
	}
	if v, ok := x.external(fn, args); ok {
		return v
	}
	if x.funcs != nil {
		if _, seen := x.funcs[fn]; !seen {
			x.funcs[fn] = x.P.isSUT(fn)
		}
	}
	x.depth++
	if x.depth > maxDepth {
		x.fail("recursion-depth", "")
	}
	x.curFn = append(x.curFn, fn)
	savedPos := x.curIn
	defer func() { x.depth--; x.curFn = x.curFn[:len(x.curFn)-1]; x.curIn = savedPos }()
	fr := &frame{fn: fn, env: make(map[ssa.Value]Val, 32), loops: map[*ssa.BasicBlock]int{}}
	for i, p := range fn.Params {
		fr.env[p] = args[i]
	}
	for i, fv := range fn.FreeVars {
		fr.env[fv] = env[i]
	}
	blk := fn.Blocks[0]
	skipPhi := false
	for {
		var next *ssa.BasicBlock
		// phis are evaluated in parallel on block entry
		nphi := 0
		for nphi < len(blk.Instrs) {
			if _, ok := blk.Instrs[nphi].(*ssa.Phi); !ok {
				break
			}
			nphi++
		}
		if nphi > 0 && !skipPhi {
			idx := -1
			for i, p := range blk.Preds {
				if p == fr.prev {
					idx = i
					break
				}
			}
			if idx < 0 {
				panic("phi without matching predecessor in " + fn.String())
			}
			if nphi == 1 {
				ph := blk.Instrs[0].(*ssa.Phi)
				fr.env[ph] = x.get(fr, ph.Edges[idx])
			} else {
				vals := make([]Val, nphi)
				for i := 0; i < nphi; i++ {
					vals[i] = x.get(fr, blk.Instrs[i].(*ssa.Phi).Edges[idx])
				}
				for i := 0; i < nphi; i++ {
					fr.env[blk.Instrs[i].(*ssa.Phi)] = vals[i]
				}
			}
		}
		skipPhi = false
		for _, in := range blk.Instrs[nphi:] {
			x.steps++
			if x.steps > maxSteps {
				x.fail("step-budget", "")
			}
			switch in := in.(type) {
			case *ssa.If:
				x.curIn = in
				c := x.get(fr, in.Cond).(Bool)
				if nb, ok := x.ifConvert(fr, blk, c); ok {
					next = nb
					skipPhi = true
				} else if nb, from, ok := x.regionDispatch(fr, blk, c); ok {
					next = nb
					blk = from
				} else if x.truth(c) {
					next = blk.Succs[0]
				} else {
					next = blk.Succs[1]
				}
			case *ssa.Jump:
				next = blk.Succs[0]
			case *ssa.Return:
				switch len(in.Results) {
				case 0:
					return nil
				case 1:
					return x.get(fr, in.Results[0])
				}
				t := make(Tuple, len(in.Results))
				for i, r := range in.Results {
					t[i] = x.get(fr, r)
				}
				return t
			case *ssa.Panic:
				x.curIn = in
				if x.catching > 0 {
					panic(userPanic{x.get(fr, in.X)})
				}
				x.fail("explicit-panic", "")
			case *ssa.Store:
				x.curIn = in
				x.store(x.get(fr, in.Addr).(Ptr), x.get(fr, in.Val))
			case *ssa.MapUpdate:
				x.curIn = in
				x.mapUpdate(x.get(fr, in.Map).(*Map), x.get(fr, in.Key), x.get(fr, in.Value))
			case *ssa.DebugRef:
			case *ssa.RunDefers:
				// deferred calls run at normal return, last first (recover is not modelled)
				for i := len(fr.defers) - 1; i >= 0; i-- {
					fr.defers[i]()
				}
				fr.defers = nil
			case *ssa.Defer:
				x.curIn = in
				fr.defers = append(fr.defers, x.deferred(fr, in.Common()))
			case *ssa.Go, *ssa.Send, *ssa.Select:
				panic(unsupported{fmt.Sprintf("instruction %T in %s", in, fn)})
			case ssa.Value:
				x.curIn = in.(ssa.Instruction)
				fr.env[in] = x.eval(fr, in)
			default:
				panic(unsupported{fmt.Sprintf("instruction %T", in)})
			}
		}
		if next == nil {
			panic("fell off block in " + fn.String())
		}
		// loop budget (per activation): count arrivals over backward edges
		if next.Index <= blk.Index {
			fr.loops[next]++
			if fr.loops[next] > x.job.Unwind {
				x.fail("unwind", "")
			}
		}
		if !skipPhi {
			fr.prev = blk
		}
		blk = next
	}
}

// ifConvert merges the pure diamond produced by `a && b` / `a || b` (and
// simple conditional values) into an ite instead of forking. Pattern:
//
//	blk: if c goto T else J   (or: else T, then J)
//	T:   pure scalar instrs; jump J      (T has the single predecessor blk)
//	J:   phi [.. from blk, .. from T]
//
// Only BinOp/UnOp(non-load)/Convert/ChangeType on scalars with no panic
// potential are accepted in T.
func (x *Exec) ifConvert(fr *frame, blk *ssa.BasicBlock, c Bool) (*ssa.BasicBlock, bool) {
	if c.T == "" || x.job.NoIfConv {
		return nil, false
	}
	s0, s1 := blk.Succs[0], blk.Succs[1]
	var T, J *ssa.BasicBlock
	tOnTrue := false
	if len(s0.Preds) == 1 && len(s0.Succs) == 1 && s0.Succs[0] == s1 {
		T, J, tOnTrue = s0, s1, true
	} else if len(s1.Preds) == 1 && len(s1.Succs) == 1 && s1.Succs[0] == s0 {
		T, J, tOnTrue = s1, s0, false
	} else {
		return nil, false
	}
	if len(J.Preds) != 2 {
		return nil, false
	}
	// T must be pure
	for _, in := range T.Instrs {
		switch in := in.(type) {
		case *ssa.BinOp:
			if in.Op == token.QUO || in.Op == token.REM || in.Op == token.SHL || in.Op == token.SHR {
				return nil, false
			}
			if !pureScalar(in.X.Type()) {
				return nil, false
			}
		case *ssa.UnOp:
			if in.Op == token.MUL || in.Op == token.ARROW {
				return nil, false
			}
		case *ssa.Convert:
			if !pureScalar(in.X.Type()) || !pureScalar(in.Type()) {
				return nil, false
			}
		case *ssa.ChangeType, *ssa.Jump, *ssa.DebugRef:
		default:
			return nil, false
		}
	}
	// J's leading phis must be scalar
	var phis []*ssa.Phi
	for _, in := range J.Instrs {
		p, ok := in.(*ssa.Phi)
		if !ok {
			break
		}
		if !pureScalar(p.Type()) {
			return nil, false
		}
		phis = append(phis, p)
	}
	if len(phis) == 0 {
		return nil, false
	}
	// evaluate T speculatively
	for _, in := range T.Instrs {
		if v, ok := in.(ssa.Value); ok {
			x.steps++
			fr.env[v.(ssa.Value)] = x.eval(fr, v)
		}
	}
	idxBlk, idxT := -1, -1
	for i, p := range J.Preds {
		if p == blk {
			idxBlk = i
		}
		if p == T {
			idxT = i
		}
	}
	if idxBlk < 0 || idxT < 0 {
		return nil, false
	}
	cond := c
	if !tOnTrue {
		cond = not(c)
	}
	vals := make([]Val, len(phis))
	for i, p := range phis {
		vt := x.get(fr, p.Edges[idxT])
		vb := x.get(fr, p.Edges[idxBlk])
		vals[i] = x.ite(cond, vt, vb)
	}
	for i, p := range phis {
		fr.env[p] = vals[i]
	}
	// J is entered with its phis already set (the caller skips them)
	fr.prev = T
	return J, true
}

func pureScalar(t types.Type) bool {
	b, ok := t.Underlying().(*types.Basic)
	if !ok {
		return false
	}
	return b.Info()&(types.IsBoolean|types.IsInteger) != 0
}
