package main

import (
	"go/constant"
	"go/token"
	"strings"
	"sync"

	"golang.org/x/tools/go/ssa"
)

// The grammar oracle of C04: the executor unrolls the CYK recurrence of the
// grammar text held in the harness constant verifGrammarText into a Boolean
// circuit over the (symbolic) token types.

type gProd struct {
	lhs string
	rhs []string
}

type grammar struct {
	prods []gProd
	order []string
	nts   map[string]bool
	tok   map[string]uint64
}

var gramOnce sync.Once
var gram *grammar

func (P *Program) grammar() *grammar {
	gramOnce.Do(func() {
		nc, ok := P.lib.Members["verifGrammarText"].(*ssa.NamedConst)
		if !ok {
			return
		}
		text := constant.StringVal(nc.Value.Value)
		g := &grammar{nts: map[string]bool{}, tok: map[string]uint64{}}
		for _, line := range strings.Split(text, "\n") {
			f := strings.Fields(line)
			if len(f) < 3 || f[1] != "=" {
				continue
			}
			g.prods = append(g.prods, gProd{f[0], f[2:]})
			g.nts[f[0]] = true
		}
		g.order = []string{"CMP", "ID", "SL", "KV", "KVLIST", "BS", "FUNC", "MSL", "MSH", "E", "ARG", "ARGS", "ELIST"}
		for _, p := range g.prods {
			for _, s := range p.rhs {
				if !g.nts[s] {
					c, ok := P.lib.Members["t"+s].(*ssa.NamedConst)
					if !ok {
						panic("grammar: unknown token " + s)
					}
					g.tok[s] = uint64(c.Value.Int64())
				}
			}
		}
		for nt := range g.nts {
			found := false
			for _, o := range g.order {
				if o == nt {
					found = true
				}
			}
			if !found {
				panic("grammar: nonterminal " + nt + " missing from evaluation order")
			}
		}
		gram = g
	})
	if gram == nil {
		panic(unsupported{"no verifGrammarText in harness"})
	}
	return gram
}

func (x *Exec) grammarAccepts(types []Int) Bool {
	g := x.P.grammar()
	n := len(types)
	if n == 0 {
		return Bool{C: false}
	}
	N := map[string][][]Bool{}
	for _, a := range g.order {
		t := make([][]Bool, n+1)
		for i := range t {
			t[i] = make([]Bool, n+1)
		}
		N[a] = t
	}
	// terminal tests, memoised
	tt := map[string][]Bool{}
	sym := func(s string, i, j int) Bool {
		if g.nts[s] {
			return N[s][i][j]
		}
		if j != i+1 {
			return Bool{C: false}
		}
		row, ok := tt[s]
		if !ok {
			row = make([]Bool, n)
			for k := 0; k < n; k++ {
				row[k] = x.binInt(token.EQL, types[k], Int{W: types[k].W, S: types[k].S, C: g.tok[s]}).(Bool)
				row[k].EqVar = ""
			}
			tt[s] = row
		}
		return row[i]
	}
	for ln := 1; ln <= n; ln++ {
		for i := 0; i+ln <= n; i++ {
			j := i + ln
			for _, a := range g.order {
				res := Bool{C: false}
				for _, p := range g.prods {
					if p.lhs != a || len(p.rhs) > ln {
						continue
					}
					k := len(p.rhs)
					cur := make([]Bool, n+1)
					cur[i] = Bool{C: true}
					for m := 0; m < k; m++ {
						nxt := make([]Bool, n+1)
						for t := i; t <= j; t++ {
							if cur[t].T == "" && !cur[t].C {
								continue
							}
							for u := t + 1; u <= j; u++ {
								if (u == j && m < k-1) || (m == k-1 && u != j) {
									continue
								}
								nxt[u] = x.or(nxt[u], x.and(cur[t], sym(p.rhs[m], t, u)))
							}
						}
						cur = nxt
					}
					res = x.or(res, cur[j])
				}
				N[a][i][j] = res
			}
		}
	}
	return N["E"][0][n]
}
