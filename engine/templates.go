package main

import (
	"fmt"
	"strings"
)

// Expression templates for the interpreter-level properties. This is the one
// place where *programs* are enumerated rather than symbolic: every template
// is a concrete expression text together with the oracle's own syntax tree
// (s-expression for specEval); its integer payloads and the whole document
// remain solver variables.
//
// A template is built from a head and a chain of postfix steps; buildChain
// encodes the specification's scoping rule (a projection's right-hand side
// extends over the following steps until a flatten; pipes and other
// operators of lower precedence end it).

type tmpl struct {
	text string
	spec string
	mode int // 0 exact, 1 multiset at top level, 2 order-dependent on object iteration: error-ness only
	ints int
	prec int // 0 = atom / parenthesised; otherwise the binding power of the top-level operator
}

const precChain = 50

type step struct {
	kind string // field index list hash call proj vproj flat filter slice
	text string
	spec string // for non-projection steps: the node applied to the left value; for filter: the condition; for slice: "s e st"
	obj  bool   // iterates object members
	mode int    // order mode of embedded sub-templates
}

func anyMode(items ...tmpl) int {
	for _, i := range items {
		if i.mode != 0 {
			return 2
		}
	}
	return 0
}

func fieldName(n string) string {
	if n == "" {
		return `""`
	}
	return n
}
func sField(n string) step {
	return step{kind: "field", text: "." + fieldName(n), spec: "(field " + fieldName(n) + ")"}
}
func sIndex(atom string) step { return step{kind: "index", text: "[" + intText(atom) + "]", spec: "(index " + atom + ")"} }
func sProj() step              { return step{kind: "proj", text: "[*]"} }
func sVproj() step             { return step{kind: "vproj", text: ".*", obj: true} }
func sFlat() step              { return step{kind: "flat", text: "[]"} }
func sFilter(c tmpl) step {
	return step{kind: "filter", text: "[?" + c.text + "]", spec: c.spec, mode: c.mode}
}
func sSlice(a, b, c string) step {
	t := "[" + intTextOpt(a) + ":" + intTextOpt(b)
	if c != "_" {
		t += ":" + intTextOpt(c)
	}
	return step{kind: "slice", text: t + "]", spec: a + " " + b + " " + c}
}
func sList(items ...tmpl) step {
	ts, ss := []string{}, []string{}
	for _, i := range items {
		ts = append(ts, i.text)
		ss = append(ss, i.spec)
	}
	return step{kind: "list", text: ".[" + strings.Join(ts, ", ") + "]", spec: "(list " + strings.Join(ss, " ") + ")", mode: anyMode(items...)}
}
func sHash(kv ...interface{}) step {
	ts, ss := []string{}, []string{}
	m := 0
	for i := 0; i+1 < len(kv); i += 2 {
		k := kv[i].(string)
		v := kv[i+1].(tmpl)
		ts = append(ts, k+": "+v.text)
		ss = append(ss, k+" "+v.spec)
		if v.mode != 0 {
			m = 2
		}
	}
	return step{kind: "hash", text: ".{" + strings.Join(ts, ", ") + "}", spec: "(hash " + strings.Join(ss, " ") + ")", mode: m}
}
func sCall(name string, args ...tmpl) step {
	c := call(name, args...)
	return step{kind: "call", text: "." + c.text, spec: c.spec, mode: c.mode}
}

func intText(atom string) string {
	if strings.HasPrefix(atom, "?") {
		var k int
		fmt.Sscanf(atom[1:], "%d", &k)
		return fmt.Sprint(990000 + k)
	}
	return atom
}
func intTextOpt(atom string) string {
	if atom == "_" {
		return ""
	}
	return intText(atom)
}

// heads
func hField(n string) tmpl { return tmpl{text: fieldName(n), spec: "(field " + fieldName(n) + ")"} }
func hCur() tmpl           { return tmpl{text: "@", spec: "(cur)"} }
func hNone() tmpl          { return tmpl{text: "", spec: "(id)"} }
func hLit(j string) tmpl   { return tmpl{text: "`" + j + "`", spec: "(lit " + j + ")"} }
func hRaw(s string) tmpl   { return tmpl{text: "'" + s + "'", spec: "(raw " + fieldName(s) + ")"} }
func hParen(t tmpl) tmpl   { return tmpl{text: "(" + t.text + ")", spec: t.spec, mode: t.mode, ints: t.ints} }
func paren(t tmpl, need bool) tmpl {
	if need {
		return hParen(t)
	}
	return t
}
func hList(items ...tmpl) tmpl {
	s := sList(items...)
	return tmpl{text: s.text[1:], spec: s.spec, mode: s.mode}
}
func hHash(kv ...interface{}) tmpl {
	s := sHash(kv...)
	return tmpl{text: s.text[1:], spec: s.spec, mode: s.mode}
}
func call(name string, args ...tmpl) tmpl {
	ts, ss := []string{}, []string{}
	for _, a := range args {
		ts = append(ts, a.text)
		ss = append(ss, a.spec)
	}
	sp := "(call " + name
	if len(ss) > 0 {
		sp += " " + strings.Join(ss, " ")
	}
	m := anyMode(args...)
	if m == 0 && (name == "keys" || name == "values") {
		m = 1
	}
	return tmpl{text: name + "(" + strings.Join(ts, ", ") + ")", spec: sp + ")", mode: m}
}
func ref(t tmpl) tmpl { return tmpl{text: "&" + t.text, spec: "(ref " + t.spec + ")", mode: t.mode} }

// buildChain: text and oracle tree of head followed by steps.
func buildChain(head tmpl, steps ...step) tmpl {
	text := head.text
	for i, s := range steps {
		t := s.text
		if i == 0 && head.text == "" {
			// a chain without head: ".f" is written "f", ".*" is "*", ".[..]" is "[..]"
			if strings.HasPrefix(t, ".") {
				t = t[1:]
			}
		}
		text += t
	}
	mode := head.mode
	spec := buildSpec(head.spec, steps, &mode)
	p := 0
	if len(steps) > 0 {
		p = precChain
	}
	if head.prec != 0 && len(steps) > 0 {
		ok := head.prec == precChain
		for _, p := range []string{"(proj", "(vproj", "(flat", "(filter", "(slice"} {
			if strings.Contains(head.spec, p) {
				ok = false
			}
		}
		if !ok {
			panic("template: chain on an unparenthesised operator or projection expression: " + head.text)
		}
	}
	if len(steps) == 0 {
		p = head.prec
	}
	return tmpl{text: text, spec: spec, mode: mode, ints: countInts(text), prec: p}
}

func countInts(text string) int {
	n := 0
	for k := 1; k <= 9; k++ {
		if strings.Contains(text, fmt.Sprint(990000+k)) {
			n = k
		}
	}
	return n
}

func buildSpec(left string, steps []step, mode *int) string {
	for i := 0; i < len(steps); i++ {
		s := steps[i]
		switch s.kind {
		case "field", "index", "list", "hash", "call":
			if *mode != 0 || s.mode != 0 {
				*mode = 2
			}
			if left == "(id)" {
				left = s.spec
			} else {
				left = "(sub " + left + " " + s.spec + ")"
			}
		case "proj", "vproj", "filter", "slice", "flat":
			// the right-hand side runs to the next flatten (or the end)
			j := i + 1
			for j < len(steps) && steps[j].kind != "flat" {
				j++
			}
			if s.obj {
				if *mode == 0 {
					*mode = 1
				} else {
					*mode = 2
				}
			}
			if s.mode != 0 {
				*mode = 2
			}
			inner := 0
			rhs := buildSpec("(id)", steps[i+1:j], &inner)
			if inner != 0 {
				*mode = 2
			}
			switch s.kind {
			case "proj":
				left = "(proj " + left + " " + rhs + ")"
			case "vproj":
				left = "(vproj " + left + " " + rhs + ")"
			case "flat":
				left = "(flat " + left + " " + rhs + ")"
			case "filter":
				left = "(filter " + left + " " + s.spec + " " + rhs + ")"
			case "slice":
				if *mode != 0 {
					*mode = 2
				}
				left = "(slice " + left + " " + s.spec + " " + rhs + ")"
			}
			i = j - 1
		}
	}
	return left
}

func worse(a, b int) int {
	if a == 0 && b == 0 {
		return 0
	}
	return 2
}

func bin(op, sp string, p int, l, r tmpl) tmpl {
	m := worse(l.mode, r.mode)
	lt := paren(l, l.prec != 0 && l.prec < p)
	rt := paren(r, r.prec != 0 && r.prec <= p)
	t := tmpl{text: lt.text + " " + op + " " + rt.text, spec: "(" + sp + " " + l.spec + " " + r.spec + ")", mode: m, prec: p}
	t.ints = countInts(t.text)
	return t
}
func pipe(l, r tmpl) tmpl {
	t := bin("|", "pipe", 1, l, r)
	// a pipe applies r to the whole left result: an object-derived list on the left stays one only if r is identity-like
	if l.mode != 0 {
		t.mode = 2
	}
	return t
}
func tOr(l, r tmpl) tmpl  { return bin("||", "or", 2, l, r) }
func tAnd(l, r tmpl) tmpl { return bin("&&", "and", 3, l, r) }
func tNot(e tmpl) tmpl {
	et := paren(e, e.prec != 0)
	return tmpl{text: "!" + et.text, spec: "(not " + e.spec + ")", mode: worse(e.mode, 0), ints: e.ints, prec: 45}
}

var cmpOps = [][2]string{{"==", "eq"}, {"!=", "ne"}, {"<", "lt"}, {"<=", "le"}, {">", "gt"}, {">=", "ge"}}

func cmp(op [2]string, l, r tmpl) tmpl { return bin(op[0], "cmp "+op[1], 5, l, r) }

func (t tmpl) job(prop string, depth int) *Job {
	j := jobOf("VerifEval", []string{prop}, "expr", t.text, "spec", t.spec, "prop", prop, "mode", itoa(t.mode), "depth", itoa(depth), "ints", itoa(countInts(t.text)))
	// loops over the expression text (lexer, oracle tokenizer) are bounded by its length
	j.Unwind = 64 + 2*len(t.spec) + 2*len(t.text)
	// a by-expression key taken from a member of each element needs one more document level
	if strings.Contains(t.text, "&a") || strings.Contains(t.text, "&b") {
		j.Params["depth"] = itoa(depth + 1)
	}
	if strings.Contains(t.text, "avg(") || strings.Contains(t.text, "sum(") {
		j.Solver = "cvc5" // sums of doubles: z3 4.8.12 needs >15 s per query, cvc5 ~2 s
	}
	return j
}

// ---------- families ----------

func coreHeads(thorough bool) []tmpl {
	h := []tmpl{hField("a"), hField(""), hField("zz"), hCur(), hLit("null"), hLit("1"), hLit(`"x"`), hLit("[]"), hLit("{}"),
		hLit(`[1,[2]]`), hLit(`{"a":{"b":1}}`), hRaw("raw"),
		hList(hCur()), hList(hField("a"), hField("b")), hHash("k", hCur()), hHash("k", hField("a"), "j", hField("b"))}
	if thorough {
		h = append(h, hField("b"), hLit("false"), hLit(`""`), hList(hLit("1"), hField("zz")), hHash("a", hField("b")))
	}
	return h
}

func coreSteps(thorough bool) []step {
	s := []step{sField("a"), sField("b"), sField(""), sIndex("?1"), sIndex("0"), sIndex("-1"),
		sList(hField("a"), hCur()), sHash("k", hField("a"))}
	if thorough {
		s = append(s, sField("zz"), sIndex("1"), sList(hCur()), sHash("a", hCur(), "b", hField("b")))
	}
	return s
}

// renumber symbolic ints so that each ?1 occurrence in a multi-step chain is distinct
func distinctInts(steps []step) []step {
	out := make([]step, len(steps))
	k := 0
	for i, s := range steps {
		if strings.Contains(s.spec, "?1") && s.kind == "index" {
			k++
			out[i] = sIndex(fmt.Sprintf("?%d", k))
		} else {
			out[i] = s
		}
	}
	return out
}

func familyCore(tier string) []tmpl {
	th := tier == "thorough"
	var out []tmpl
	heads, steps := coreHeads(th), coreSteps(th)
	for _, h := range heads {
		out = append(out, buildChain(h))
		for _, s := range steps {
			out = append(out, buildChain(h, s))
		}
	}
	// chains without head and two-step chains
	for _, s := range steps {
		if s.kind == "index" || s.kind == "field" {
			out = append(out, buildChain(hNone(), s))
		}
	}
	for _, h := range []tmpl{hField("a"), hCur(), hNone()} {
		for _, s1 := range steps {
			if h.text == "" && s1.kind != "index" && s1.kind != "field" {
				continue
			}
			for _, s2 := range steps {
				if !th && (s1.kind == "list" || s1.kind == "hash") && (s2.kind == "list" || s2.kind == "hash") {
					continue
				}
				out = append(out, buildChain(h, distinctInts([]step{s1, s2})...))
			}
		}
	}
	if th {
		for _, s1 := range steps[:6] {
			for _, s2 := range steps[:6] {
				for _, s3 := range steps[:6] {
					out = append(out, buildChain(hField("a"), distinctInts([]step{s1, s2, s3})...))
				}
			}
		}
	}
	// pipes and parentheses
	small := []tmpl{hField("a"), hCur(), buildChain(hField("a"), sField("b")), buildChain(hNone(), sIndex("?1")), hLit(`[1,[2]]`),
		hList(hField("a"), hField("b")), hHash("a", hField("b"))}
	for _, l := range small {
		for _, r := range small {
			out = append(out, pipe(l, r))
		}
		out = append(out, buildChain(hParen(l), sField("a")), buildChain(hParen(l), sIndex("?1")), hParen(l))
		out = append(out, pipe(pipe(l, hField("a")), hField("b")), buildChain(hParen(pipe(l, hCur())), sField("b")))
	}
	// two raw strings in one expression (nothing of the first may leak into the second)
	out = append(out, tmpl{text: "['it\\'s', 'ok']", spec: "(list (raw it's) (raw ok))"}, tmpl{text: "'it\\'s' | 'ok'", spec: "(pipe (raw it's) (raw ok))"},
		tmpl{text: "{x: 'a\\'', y: '', z: 'b'}", spec: "(hash x (raw a') y (raw \"\") z (raw b))"},
		tmpl{text: "['a\\'b', 'c\\'d', 'e']", spec: "(list (raw a'b) (raw c'd) (raw e))"}, tmpl{text: "'a\\'b' | ['c\\'d', @]", spec: "(pipe (raw a'b) (list (raw c'd) (cur)))"})
	// JSON literals with several escaped backticks (each \` denotes one backtick), alone and next to other literals
	out = append(out, tmpl{text: "`\"a\\`b\\`c\"`", spec: "(lit \"a`b`c\")"}, tmpl{text: "[`\"\\`\\`\"`, `\"\\`x\"`]", spec: "(list (lit \"``\") (lit \"`x\"))"},
		tmpl{text: "{x: `[\"\\`\", \"\\`\\`\\`\"]`, y: a}", spec: "(hash x (lit [\"`\",\"```\"]) y (field a))"},
		tmpl{text: "`{\"\\`k\\`\": 1}` | @", spec: "(pipe (lit {\"`k`\":1}) (cur))"})
	// multi-select members see the same current node
	out = append(out, hList(hCur(), hCur()), hList(buildChain(hField("a"), sField("b")), buildChain(hNone(), sIndex("?1")), hLit("null")),
		hHash("x", buildChain(hField("a"), sIndex("?1")), "y", hCur()), buildChain(hField("a"), sList(hField("b"), hCur()), sIndex("?1")),
		hList(hList(hField("a"))), hHash("k", hHash("j", hField("a"))), pipe(hList(hField("a"), hField("b")), buildChain(hNone(), sIndex("?1"))))
	return dedupe(out)
}

func dedupe(ts []tmpl) []tmpl {
	seen := map[string]bool{}
	var out []tmpl
	for _, t := range ts {
		if t.text == "" || seen[t.text] {
			continue
		}
		seen[t.text] = true
		out = append(out, t)
	}
	return out
}

var errCalls = []tmpl{call("nosuch", hCur()), call("abs", hRaw("s")), call("abs", hCur())}

func projSteps(th bool) []step {
	ps := []step{sProj(), sVproj(), sFlat(), sFilter(hField("a")), sFilter(cmp(cmpOps[0], hField("a"), hField("b"))),
		sFilter(cmp(cmpOps[4], hCur(), hLit("1"))), sSlice("_", "_", "2"), sSlice("1", "_", "_"), sSlice("_", "_", "-1")}
	if th {
		ps = append(ps, sSlice("?1", "?2", "?3"), sFilter(hCur()), sFilter(tNot(hField("a"))), sSlice("_", "?1", "_"), sSlice("?1", "_", "?2"))
	}
	return ps
}

func rhsChains(th bool) [][]step {
	r := [][]step{{}, {sField("a")}, {sIndex("0")}, {sField("a"), sField("b")}, {sProj()}, {sFlat()}, {sCall("type", hCur())}, {sList(hCur())}}
	if th {
		r = append(r, []step{sIndex("?4")}, []step{sField("a"), sIndex("-1")}, []step{sVproj()}, []step{sFilter(hField("b"))},
			[]step{sHash("k", hField("a"))}, []step{sField("a"), sProj()}, []step{sProj(), sField("a")})
	}
	return r
}

func familyProj(tier string) []tmpl {
	th := tier == "thorough"
	var out []tmpl
	lefts := []tmpl{hNone(), hField("a"), hLit(`[[1,2],[3],4,null,{"a":[5]}]`), errCalls[1]}
	if th {
		lefts = append(lefts, buildChain(hField("a"), sField("b")), hCur(), hLit(`{"x":[1],"y":null,"z":{"a":2}}`), errCalls[2])
	}
	// symbolic slice bounds (every start/stop/step) with the two simplest right-hand sides
	for _, l := range []tmpl{hNone(), hField("a")} {
		out = append(out, buildChain(l, sSlice("?1", "?2", "?3")), buildChain(l, sSlice("?1", "?2", "?3"), sField("a")))
	}
	for _, l := range lefts {
		for _, p := range projSteps(th) {
			for _, r := range rhsChains(th) {
				steps := append([]step{p}, r...)
				c := buildChain(l, steps...)
				out = append(out, c)
			}
		}
	}
	// terminators: where the projection stops
	base := []tmpl{buildChain(hField("a"), sProj(), sField("b")), buildChain(hNone(), sVproj(), sField("a")),
		buildChain(hField("a"), sFlat(), sField("b")), buildChain(hField("a"), sFilter(hField("b")), sField("a")),
		buildChain(hField("a"), sSlice("1", "_", "_"), sField("b"))}
	for _, b := range base {
		out = append(out, pipe(b, buildChain(hNone(), sIndex("0"))), pipe(b, hField("a")), tOr(b, hField("b")), tAnd(b, hField("b")),
			cmp(cmpOps[0], b, hLit("[]")), buildChain(hParen(b), sIndex("0")), buildChain(hParen(b), sField("a")),
			hList(b, hField("a")), tNot(hParen(b)))
	}
	// chained and nested projections
	two := []step{sProj(), sVproj(), sFlat(), sFilter(hField("a")), sSlice("_", "_", "-1")}
	for _, p1 := range two {
		for _, p2 := range two {
			if !th && p1.obj && p2.obj {
				continue
			}
			out = append(out, buildChain(hField("a"), p1, p2), buildChain(hField("a"), p1, sField("b"), p2), buildChain(hNone(), p1, p2, sField("a")))
			if th {
				out = append(out, buildChain(hField("a"), p1, p2, sFlat()), buildChain(hNone(), p1, sField("a"), p2, sField("b")))
			}
		}
	}
	// the object wildcard after a dot continues over later segments
	out = append(out, buildChain(hField("a"), sVproj(), sField("b"), sField("a")), buildChain(hField("a"), sVproj(), sField("a"), sIndex("0")),
		buildChain(hCur(), sVproj(), sField("a"), sField("b")), buildChain(hNone(), sVproj(), sField("a"), sField("b")),
		buildChain(hNone(), sVproj(), sCall("type", hCur())), buildChain(hField("a"), sVproj(), sCall("type", hCur())))
	return dedupe(out)
}

func familyBool(tier string) []tmpl {
	th := tier == "thorough"
	var out []tmpl
	a, b, c := hField("a"), hField("b"), hField("c")
	for _, op := range cmpOps {
		out = append(out, cmp(op, a, b), cmp(op, a, hLit("1")), cmp(op, hLit(`"x"`), b), cmp(op, a, a), cmp(op, a, hLit("null")))
		out = append(out, buildChain(hNone(), sFilter(cmp(op, a, b))), buildChain(hNone(), sFilter(cmp(op, hCur(), hLit("0")))))
		if th {
			out = append(out, cmp(op, a, hLit("[]")), cmp(op, a, hLit("{}")), cmp(op, hLit("[1]"), a), cmp(op, buildChain(a, sIndex("0")), b),
				cmp(op, hLit("-0"), a), cmp(op, a, hLit(`""`)), cmp(op, hLit("false"), a))
		}
	}
	out = append(out, tOr(a, b), tAnd(a, b), tNot(a), tNot(hParen(tOr(a, b))), tNot(tNot(a)),
		tOr(tOr(a, b), c), tAnd(tAnd(a, b), c), tOr(tAnd(a, b), c), tOr(a, tAnd(b, c)), tAnd(hParen(tOr(a, b)), c), tAnd(a, hParen(tOr(b, c))),
		tOr(a, errCalls[1]), tAnd(a, errCalls[1]), tOr(errCalls[1], a), tAnd(errCalls[1], a), tNot(errCalls[1]),
		tOr(a, tNot(b)), tAnd(tNot(a), b), cmp(cmpOps[0], tOr(a, b), c), tOr(a, cmp(cmpOps[2], b, c)), tAnd(cmp(cmpOps[0], a, b), c),
		buildChain(hNone(), sFilter(tOr(a, b))), buildChain(hNone(), sFilter(tAnd(a, b))), buildChain(hNone(), sFilter(tNot(a))),
		buildChain(hNone(), sFilter(hCur())), buildChain(hField("a"), sFilter(tNot(hCur()))),
		tOr(hLit("0"), a), tAnd(hLit("0"), a), tOr(hLit(`""`), a), tOr(hLit("[]"), a), tOr(hLit("{}"), a), tOr(hLit("false"), a), tOr(hLit("null"), a),
		tAnd(hLit(`""`), a), tAnd(hLit("[]"), a), tAnd(hLit("{}"), a), tNot(hLit("0")), tNot(hLit("[]")), tNot(hLit(`[0]`)))
	if th {
		out = append(out, tOr(buildChain(a, sProj()), b), tAnd(buildChain(a, sIndex("?1")), b), tNot(buildChain(a, sField("b"))),
			tOr(a, tOr(b, c)), tAnd(a, tAnd(b, c)), cmp(cmpOps[2], cmp(cmpOps[2], a, b), c), tOr(tNot(a), tNot(b)),
			pipe(tOr(a, b), hCur()), hList(tOr(a, b), tAnd(a, b), tNot(a)))
	}
	return dedupe(out)
}

// familyPrec: unparenthesised operator mixes whose oracle tree is built from
// the specification's precedence order (C03, evaluated).
func familyPrec(tier string) []tmpl {
	type opd struct {
		text, kind string
		prec       int
	}
	ops := []opd{{"|", "pipe", 1}, {"||", "or", 2}, {"&&", "and", 3}, {"==", "cmp eq", 5}, {"<", "cmp lt", 5}}
	xs := []tmpl{hField("a"), hField("b"), hField("c"), hField("d")}
	var out []tmpl
	var build func(ops []opd, xs []tmpl) tmpl
	build = func(os []opd, vs []tmpl) tmpl {
		if len(os) == 0 {
			return vs[0]
		}
		// split at the loosest operator; among equals, the rightmost (left associativity)
		best := 0
		for i := range os {
			if os[i].prec <= os[best].prec {
				best = i
			}
		}
		l := build(os[:best], vs[:best+1])
		r := build(os[best+1:], vs[best+1:])
		return tmpl{spec: "(" + os[best].kind + " " + l.spec + " " + r.spec + ")"}
	}
	n := 2
	if tier == "thorough" {
		n = 3
	}
	var rec func(cur []opd)
	rec = func(cur []opd) {
		if len(cur) > 0 {
			t := build(cur, xs[:len(cur)+1])
			txt := xs[0].text
			for i, o := range cur {
				txt += " " + o.text + " " + xs[i+1].text
			}
			t.text = txt
			out = append(out, t)
		}
		if len(cur) == n {
			return
		}
		for _, o := range ops {
			rec(append(append([]opd{}, cur...), o))
		}
	}
	rec(nil)
	// not binds tighter than every binary operator and than the dot
	a, b := hField("a"), hField("b")
	out = append(out, tmpl{text: "!a || b", spec: "(or (not (field a)) (field b))"}, tmpl{text: "!a && b", spec: "(and (not (field a)) (field b))"},
		tmpl{text: "!a == b", spec: "(cmp eq (not (field a)) (field b))"}, tmpl{text: "!a.b", spec: "(sub (not (field a)) (field b))"},
		tmpl{text: "!a | b", spec: "(pipe (not (field a)) (field b))"}, tmpl{text: "a.b || c.d", spec: "(or (sub (field a) (field b)) (sub (field c) (field d)))"},
		tmpl{text: "a[*].b || c", spec: "(or (proj (field a) (field b)) (field c))"}, tmpl{text: "a[*].b == c", spec: "(cmp eq (proj (field a) (field b)) (field c))"},
		tmpl{text: "a || b[*].c", spec: "(or (field a) (proj (field b) (field c)))"}, tmpl{text: "a[].b | [0]", spec: "(pipe (flat (field a) (field b)) (index 0))"},
		tmpl{text: "a[*].b[0]", spec: "(proj (field a) (sub (field b) (index 0)))"}, tmpl{text: "(a[*].b)[0]", spec: "(sub (proj (field a) (field b)) (index 0))"},
		tmpl{text: "a[*].b[]", spec: "(flat (proj (field a) (field b)) (id))"}, tmpl{text: "a[*][0][]", spec: "(flat (proj (field a) (index 0)) (id))"},
		tmpl{text: " a . b ", spec: "(sub (field a) (field b))"}, tmpl{text: "a\t[ 0 ]\n.\rb", spec: "(sub (sub (field a) (index 0)) (field b))"},
		tmpl{text: "( ( a ) )", spec: "(field a)"}, tmpl{text: "((a.b))", spec: "(sub (field a) (field b))"},
		tmpl{text: "(a || b) && c", spec: "(and (or (field a) (field b)) (field c))"}, tmpl{text: "a || (b && c)", spec: "(or (field a) (and (field b) (field c)))"},
		// projections in prefix position keep the whole chain as their right-hand side
		tmpl{text: "[*].b[?c]", spec: "(proj (id) (filter (field b) (field c) (id)))"}, tmpl{text: "a | [*].b[?c]", spec: "(pipe (field a) (proj (id) (filter (field b) (field c) (id))))"},
		tmpl{text: "[*].b[?c].d", spec: "(proj (id) (filter (field b) (field c) (field d)))"}, tmpl{text: "[].b[?c]", spec: "(flat (id) (filter (field b) (field c) (id)))"},
		tmpl{text: "[?a].b[?c]", spec: "(filter (id) (field a) (filter (field b) (field c) (id)))"},
		tmpl{text: "[1:].b[?c]", spec: "(slice (id) 1 _ _ (filter (field b) (field c) (id)))"}, tmpl{text: "a[*][*].b[?c]", spec: "(proj (field a) (proj (id) (filter (field b) (field c) (id))))"},
		tmpl{text: "[*].b[*].c", spec: "(proj (id) (proj (field b) (field c)))"}, 
		tmpl{text: "[*].b[0][?c]", spec: "(proj (id) (filter (sub (field b) (index 0)) (field c) (id)))"}, tmpl{text: "(a)[*].b[?c]", spec: "(proj (field a) (filter (field b) (field c) (id)))"})
	_ = a
	_ = b
	return dedupe(out)
}

// ---------- functions (C09, C10) ----------

var funcArity = map[string]int{"abs": 1, "avg": 1, "ceil": 1, "contains": 2, "ends_with": 2, "floor": 1, "join": 2, "keys": 1,
	"length": 1, "map": 2, "max": 1, "max_by": 2, "merge": 1, "min": 1, "min_by": 2, "not_null": 1, "reverse": 1, "sort": 1,
	"sort_by": 2, "starts_with": 2, "sum": 1, "to_array": 1, "to_string": 1, "to_number": 1, "type": 1, "values": 1, "nosuch": 1}

var funcNames = []string{"abs", "avg", "ceil", "contains", "ends_with", "floor", "join", "keys", "length", "map", "max", "max_by",
	"merge", "min", "min_by", "not_null", "reverse", "sort", "sort_by", "starts_with", "sum", "to_array", "to_string", "to_number",
	"type", "values", "nosuch"}

func tuples(alpha []tmpl, k int) [][]tmpl {
	if k == 0 {
		return [][]tmpl{{}}
	}
	var out [][]tmpl
	for _, t := range tuples(alpha, k-1) {
		for _, a := range alpha {
			out = append(out, append(append([]tmpl{}, t...), a))
		}
	}
	return out
}

// familyFunc: every function applied to every tuple over {a, b, &@} at its
// own arity, and all-value tuples one below / one above. a and b are lazy
// document members (any JSON kind), &@ is an expression reference.
func familyFunc(tier string) []tmpl {
	th := tier == "thorough"
	alpha := []tmpl{hField("a"), hField("b"), ref(hCur())}
	if th {
		alpha = append(alpha, ref(hField("b")), hCur())
	}
	var out []tmpl
	for _, f := range funcNames {
		k := funcArity[f]
		for _, t := range tuples(alpha, k) {
			out = append(out, call(f, t...))
		}
		vals := []tmpl{hField("a"), hField("b"), hField("a")}
		if k > 0 {
			out = append(out, call(f, vals[:k-1]...))
		}
		out = append(out, call(f, vals[:k+1]...))
		if th && k+2 <= 3 {
			out = append(out, call(f, vals[:k+2]...))
		}
	}
	// variadic functions: every position is checked
	out = append(out, call("merge", hField("a"), hField("b"), hCur()), call("merge", hLit("{}"), hField("a"), hField("b")), call("merge", hField("a"), hLit("{}"), hField("b")),
		call("merge", hField("a"), hLit(`{"z":1}`)), call("merge", hLit(`{"z":1}`), hField("a"), hCur()), hList(call("not_null", hField("a")), call("not_null", hField("a"), hField("b"))),
		hList(call("merge", hField("a")), call("merge", hField("a"), hField("b"))))
	out = append(out, call("merge", hField("a"), hField("b")), call("merge", hField("a"), hField("b"), hField("a")),
		call("not_null", hField("a"), hField("b")), call("not_null", hField("a"), ref(hCur())), call("not_null", ref(hCur()), hField("a")),
		call("merge", hField("a"), ref(hCur())), call("merge"), call("not_null"))
	// by-expression keys through a member of each element
	for _, f := range []string{"sort_by", "max_by", "min_by"} {
		out = append(out, call(f, hField("a"), ref(hField("b"))), call(f, hField("a"), ref(errCalls[1])), call(f, hField("a"), ref(call("abs", hCur()))))
	}
	out = append(out, call("map", ref(hField("b")), hField("a")), call("map", ref(errCalls[2]), hField("a")), call("map", ref(hLit("null")), hField("a")))
	// concrete corner cases
	out = append(out, call("avg", hLit("[]")), call("sum", hLit("[]")), call("max", hLit("[]")), call("min", hLit("[]")),
		call("max_by", hLit("[]"), ref(hCur())), call("min_by", hLit("[]"), ref(hCur())), call("sort_by", hLit("[]"), ref(hCur())),
		call("to_number", hRaw("inf")), call("to_number", hRaw("-Inf")), call("to_number", hRaw("nan")), call("to_number", hRaw("1e3")),
		call("to_number", hRaw("x")), call("to_number", hRaw("")), call("length", hLit(`"aé€𝄞"`)), call("reverse", hLit(`"aé€𝄞"`)),
		call("sort", hLit(`["b","a","é","B"]`)), call("max", hLit(`["b","é","a"]`)), call("min", hLit(`["b","é","a"]`)),
		call("sort", hLit("[3,1,2,1]")), call("contains", hLit("[[1],{}]"), hLit("[1]")), call("contains", hLit("[[1],{}]"), hLit("{}")),
		call("contains", hRaw("abc"), hRaw("bc")), call("contains", hRaw("abc"), hLit("1")), call("join", hRaw(","), hLit(`["a","b"]`)),
		call("join", hRaw(","), hLit("[]")), call("merge", hLit(`{"a":1,"b":2}`), hLit(`{"a":3}`)), call("to_array", hLit("[1]")),
		call("to_array", hLit("null")), call("to_string", hRaw("s")), call("to_string", hLit("[1]")), call("type", hLit("null")),
		call("sort_by", hLit(`[{"k":2,"v":"x"},{"k":1,"v":"y"},{"k":2,"v":"z"}]`), ref(hField("k"))),
		call("max_by", hLit(`[{"k":2,"v":"x"},{"k":1,"v":"y"},{"k":2,"v":"z"}]`), ref(hField("k"))),
		call("min_by", hLit(`[{"k":2,"v":"x"},{"k":1,"v":"y"},{"k":1,"v":"z"}]`), ref(hField("k"))),
		// longer than the insertion-sort threshold of the standard sorts: stability must not depend on length
		call("sort_by", hLit(`[{"k":2,"v":0},{"k":1,"v":1},{"k":2,"v":2},{"k":1,"v":3},{"k":2,"v":4},{"k":1,"v":5},{"k":2,"v":6},{"k":1,"v":7},{"k":2,"v":8},{"k":1,"v":9},{"k":2,"v":10},{"k":1,"v":11},{"k":2,"v":12},{"k":1,"v":13},{"k":2,"v":14},{"k":1,"v":15},{"k":2,"v":16},{"k":1,"v":17}]`), ref(hField("k"))),
		call("sort", hLit(`[5,3,9,1,7,3,8,2,6,4,0,9,5,1,7,3,8,2,6,4]`)), call("sort", hLit(`["e","c","i","a","g","c","h","b","f","d","j","a","e","k"]`)),
		call("sort_by", hLit(`[{"k":1},{"k":"a"}]`), ref(hField("k"))), call("sort_by", hLit(`[{"k":null}]`), ref(hField("k"))),
		call("max_by", hLit(`[{"k":null}]`), ref(hField("k"))), call("min_by", hLit(`[{"k":[]}]`), ref(hField("k"))))
	return dedupe(out)
}

// ---------- error contexts (C11) ----------
func familyCtx(tier string) []tmpl {
	th := tier == "thorough"
	var out []tmpl
	a, b := hField("a"), hField("b")
	errs := []tmpl{call("nosuch", hCur()), call("abs", hRaw("s")), call("abs", hCur())}
	ctx := func(e tmpl) []tmpl {
		ec := sCall("abs", hRaw("s"))
		_ = ec
		es := step{kind: "call", text: "." + e.text, spec: e.spec, mode: e.mode}
		c := []tmpl{
			e,
			buildChain(e, sField("a")), buildChain(a, es), buildChain(e, sIndex("0")), pipe(e, a), pipe(a, e),
			hList(a, e), hList(e, a), hHash("k", e), hHash("j", a, "k", e),
			buildChain(e, sProj()), buildChain(a, sProj(), es), buildChain(e, sVproj()), buildChain(a, sVproj(), es),
			buildChain(e, sFlat()), buildChain(a, sFlat(), es), buildChain(e, sFilter(a)), buildChain(a, sFilter(e)),
			buildChain(a, sFilter(b), es), buildChain(e, sSlice("1", "_", "_")), buildChain(a, sSlice("_", "_", "0")),
			buildChain(a, sSlice("1", "_", "_"), es), buildChain(a, sSlice("?1", "?2", "?3")),
			tOr(e, a), tOr(a, e), tAnd(e, a), tAnd(a, e), tNot(e), cmp(cmpOps[0], e, a), cmp(cmpOps[2], a, e), cmp(cmpOps[1], a, e),
			call("type", e), call("not_null", a, e), call("not_null", e, a), call("length", e),
			call("map", ref(e), a), call("sort_by", a, ref(e)), call("max_by", a, ref(e)), call("min_by", a, ref(e)),
			buildChain(hParen(e), sField("a")), hParen(e),
		}
		return c
	}
	for _, e := range errs {
		out = append(out, ctx(e)...)
	}
	// nested once more: an erroring context inside each context
	inner := []tmpl{hList(a, errs[1]), tOr(a, errs[1]), buildChain(a, sProj(), sCall("abs", hRaw("s"))), buildChain(errs[1], sFlat()),
		buildChain(a, sFilter(errs[2])), pipe(a, errs[0])}
	if th {
		inner = append(inner, tAnd(a, errs[2]), buildChain(errs[1], sVproj()), buildChain(errs[1], sFilter(a)), hHash("k", errs[0]), call("type", errs[1]))
	}
	for _, in := range inner {
		p := hParen(in)
		out = append(out, pipe(p, a), pipe(a, p), hList(p), hHash("k", p), buildChain(p, sProj()), buildChain(p, sFlat()), buildChain(p, sVproj()),
			buildChain(p, sFilter(a)), buildChain(a, sFilter(p)), tOr(p, a), tOr(a, p), tAnd(a, p), tNot(p), cmp(cmpOps[0], p, a),
			call("type", p), call("map", ref(p), a), call("sort_by", a, ref(p)), buildChain(p, sIndex("0")), buildChain(p, sField("a")))
	}
	return dedupe(out)
}
