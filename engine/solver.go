package main

import (
	"bufio"
	"fmt"
	"io"
	"os"
	"os/exec"
	"strings"
	"time"
)

// Solver is one live SMT solver process spoken to over a pipe.
type Solver struct {
	cmd      *exec.Cmd
	in       *bufio.Writer
	inc      io.WriteCloser
	out      *bufio.Reader
	queries  int
	dur      time.Duration
	log      *os.File
	errors   []string
	unknowns int
	name     string
}

func solverArgv(name string, timeoutMs int) []string {
	switch name {
	case "z3":
		return []string{"z3", "-in", fmt.Sprintf("-t:%d", timeoutMs)}
	case "z3-new":
		return []string{"z3-new", "-in", fmt.Sprintf("-t:%d", timeoutMs)}
	case "cvc5":
		return []string{"cvc5", "--incremental", "--lang=smt2", "--produce-models", fmt.Sprintf("--tlimit-per=%d", timeoutMs)}
	}
	panic("unknown solver " + name)
}

func newSolver(name string, timeoutMs int, pre string) *Solver {
	argv := solverArgv(name, timeoutMs)
	c := exec.Command(argv[0], argv[1:]...)
	in, _ := c.StdinPipe()
	out, _ := c.StdoutPipe()
	c.Stderr = os.Stderr
	if err := c.Start(); err != nil {
		panic(err)
	}
	s := &Solver{cmd: c, inc: in, in: bufio.NewWriterSize(in, 1<<16), out: bufio.NewReaderSize(out, 1<<16), name: name}
	s.send("(set-option :produce-models true)\n(set-logic ALL)\n" + pre)
	return s
}

func (s *Solver) close() {
	s.send("(exit)\n")
	s.in.Flush()
	s.inc.Close()
	s.cmd.Wait()
}

func (s *Solver) send(x string) {
	if s.log != nil {
		s.log.WriteString(x)
	}
	s.in.WriteString(x)
}

// check returns "sat", "unsat" or "unknown". Any (error line is recorded and
// makes the answer "unknown" (inconclusive).
func (s *Solver) check() string {
	t := time.Now()
	s.send("(check-sat)\n")
	s.in.Flush()
	res := ""
	sawErr := false
	for {
		l, err := s.out.ReadString('\n')
		if err != nil {
			panic(fmt.Sprintf("solver %s died: %v (errors so far %v)", s.name, err, s.errors))
		}
		l = strings.TrimSpace(l)
		if l == "" {
			continue
		}
		if strings.HasPrefix(l, "(error") {
			sawErr = true
			if len(s.errors) < 20 {
				s.errors = append(s.errors, l)
			}
			continue
		}
		if l == "sat" || l == "unsat" || l == "unknown" || l == "timeout" {
			res = l
			break
		}
		// unexpected output: treat as error
		sawErr = true
		if len(s.errors) < 20 {
			s.errors = append(s.errors, "unexpected: "+l)
		}
	}
	s.queries++
	s.dur += time.Since(t)
	if sawErr || res == "timeout" {
		res = "unknown"
	}
	if res == "unknown" {
		s.unknowns++
	}
	return res
}

// feasible asks whether term is satisfiable together with the current stack.
func (s *Solver) feasible(term string) string {
	s.send("(push 1)\n(assert " + term + ")\n")
	r := s.check()
	s.send("(pop 1)\n")
	return r
}

// model returns (status, model text) for term under the current stack.
func (s *Solver) model(term string, vars []string) (string, string) {
	s.send("(push 1)\n(assert " + term + ")\n")
	r := s.check()
	out := ""
	if r == "sat" && len(vars) > 0 {
		out = s.getValues(vars)
	}
	s.send("(pop 1)\n")
	return r, out
}

func (s *Solver) getValues(vars []string) string {
	s.send("(get-value (" + strings.Join(vars, " ") + "))\n")
	s.in.Flush()
	depth := 0
	var sb strings.Builder
	started := false
	for {
		c, err := s.out.ReadByte()
		if err != nil {
			panic("solver died in get-value")
		}
		if !started && (c == ' ' || c == '\n' || c == '\r') {
			continue
		}
		started = true
		sb.WriteByte(c)
		if c == '(' {
			depth++
		} else if c == ')' {
			depth--
			if depth == 0 {
				break
			}
		}
	}
	s.out.ReadString('\n')
	o := sb.String()
	if strings.HasPrefix(o, "(error") {
		s.errors = append(s.errors, o)
		return ""
	}
	return o
}
