package main

import (
	"context"
	"encoding/json"
	"fmt"
	"os"
	"os/exec"
	"path/filepath"
	"sort"
	"strings"
	"time"
)

// complianceJobs turns the repository's compliance cases into concrete jobs.
func complianceJobs(limit int) []*Job {
	files, _ := filepath.Glob(filepath.Join(repoDir, "compliance", "*.json"))
	sort.Strings(files)
	var out []*Job
	for _, f := range files {
		data, err := os.ReadFile(f)
		if err != nil {
			continue
		}
		var suites []struct {
			Given json.RawMessage `json:"given"`
			Cases []struct {
				Expression string `json:"expression"`
			} `json:"cases"`
		}
		if json.Unmarshal(data, &suites) != nil {
			continue
		}
		for _, s := range suites {
			for _, c := range s.Cases {
				j := jobOf("VerifConcrete", []string{"*"}, "expr", c.Expression, "doc", string(s.Given))
				j.WitEvery = 1
				j.Unwind = 4096
				out = append(out, j)
			}
		}
	}
	if limit > 0 && len(out) > limit {
		// deterministic spread
		step := len(out) / limit
		var sel []*Job
		for i := 0; i < len(out) && len(sel) < limit; i += step {
			sel = append(sel, out[i])
		}
		out = sel
	}
	return out
}

// runConcreteDifferential: interpret compliance cases and compare with native.
func runConcreteDifferential(P *Program, limit int) (agree, total int, problems []string) {
	jobs := complianceJobs(limit)
	s := newSched(P, time.Now().Add(10*time.Minute))
	for _, j := range jobs {
		j.Params["__props"] = "*"
		j.Params["__frame"] = "0"
		s.add(j)
	}
	s.run(16)
	var cases []Case
	for ji, j := range jobs {
		for _, u := range j.unsupp {
			problems = append(problems, "unsupported in compliance case "+j.Params["expr"]+": "+u)
		}
		for wi, w := range j.witnesses {
			cases = append(cases, Case{ID: fmt.Sprintf("W%d_%d", ji, wi), Entry: w.Entry, Params: w.Params, Tape: w.Tape})
		}
	}
	native, _, err := runNative(P, cases)
	if err != nil {
		problems = append(problems, "native run failed: "+err.Error())
		return 0, len(cases), problems
	}
	for ji, j := range jobs {
		for wi, w := range j.witnesses {
			total++
			r := native[fmt.Sprintf("W%d_%d", ji, wi)]
			same := r.Outcome == "ok" && len(r.Notes) == len(w.Notes)
			if same {
				for k := range w.Notes {
					if w.Notes[k] != r.Notes[k] {
						same = false
					}
				}
			}
			if same {
				agree++
			} else if len(problems) < 10 {
				problems = append(problems, fmt.Sprintf("compliance case %q: engine %v native %s %v", j.Params["expr"], w.Notes, r.Outcome, r.Notes))
			}
		}
	}
	return
}

func cmdSelftest(args []string) int {
	P, err := loadProgram()
	if err != nil {
		fmt.Println("load:", err)
		return 2
	}
	// 1. models vs real standard library
	ov, _ := harnessOverlay(true)
	tmp, _ := os.MkdirTemp("", "symgo-selftest-")
	defer os.RemoveAll(tmp)
	gen := "//go:build verifnative\n\npackage jmespath\n\nvar verifEntries = map[string]func(){\n"
	for _, e := range harnessEntries(P.lib) {
		gen += fmt.Sprintf("\t%q: %s,\n", e, e)
	}
	gen += "}\n"
	os.WriteFile(filepath.Join(tmp, "entries.go"), []byte(gen), 0644)
	ov[filepath.Join(repoDir, "zz_verif_entries_gen.go")] = filepath.Join(tmp, "entries.go")
	ovj, _ := json.Marshal(map[string]interface{}{"Replace": ov})
	os.WriteFile(filepath.Join(tmp, "ov.json"), ovj, 0644)
	ctx, cancel := context.WithTimeout(context.Background(), 10*time.Minute)
	defer cancel()
	cmd := exec.CommandContext(ctx, "go", "test", "-tags", "verifnative", "-vet=off", "-count=1", "-run", "^TestVerifModels$", "-v", "-overlay", filepath.Join(tmp, "ov.json"), ".")
	cmd.Dir = repoDir
	cmd.Env = goEnv()
	out, err := cmd.CombinedOutput()
	if err != nil {
		fmt.Println("model validation FAILED:\n" + string(out))
		return 1
	}
	for _, l := range strings.Split(string(out), "\n") {
		if strings.Contains(l, "models validated") {
			fmt.Println(strings.TrimSpace(l))
		}
	}
	// 2. the repository's compliance inputs through the executor vs native
	limit := 0
	if len(args) > 0 && args[0] == "--quick" {
		limit = 100
	}
	agree, total, problems := runConcreteDifferential(P, limit)
	fmt.Printf("concrete differential: %d/%d compliance cases agree between the executor and the native build\n", agree, total)
	for _, p := range problems {
		fmt.Println("  problem:", p)
	}
	if agree != total || len(problems) > 0 {
		return 1
	}
	return 0
}
