package main

import (
	"go/token"
	"go/types"
	"sync"

	"golang.org/x/tools/go/ssa"
)

// Region dispatch: a tree of side-effect-free blocks that only compute scalar
// conditions and branch (the shape of `a || (b && c)` in an if, of a switch
// with several values per case, of an else-if ladder) is executed as one
// n-way decision: one path per exit block instead of one path per way of
// reaching it. This keeps the cost of a check independent of how a condition
// is spelled (r >= '0' && r <= '9'  vs  case '0', '1', ... '9').
//
// The structure of a region is static and cached per root block; the
// conditions are evaluated speculatively (only BinOp/UnOp/Convert/ChangeType
// on scalars without panic potential are admitted, as in ifConvert).

type regionNode struct {
	blk      *ssa.BasicBlock
	parent   int  // index of parent node, -1 for root
	onTrue   bool // reached over the parent's true edge
	maxExitT int  // largest exit index inside the subtree under the true edge (-1: none)
}

type regionPath struct {
	node   int  // leaving node
	onTrue bool // over its true edge
}

type regionExit struct {
	blk   *ssa.BasicBlock
	pred  *ssa.BasicBlock
	paths []regionPath
}

type region struct {
	nodes []regionNode
	exits []regionExit
	merge bool // some exit has more than one path
}

var regionCache sync.Map // *ssa.BasicBlock -> *region

const regionMax = 40

func pureBlock(b *ssa.BasicBlock) bool {
	if len(b.Instrs) == 0 {
		return false
	}
	if _, ok := b.Instrs[len(b.Instrs)-1].(*ssa.If); !ok {
		return false
	}
	for _, in := range b.Instrs[:len(b.Instrs)-1] {
		switch in := in.(type) {
		case *ssa.BinOp:
			if in.Op == token.QUO || in.Op == token.REM || in.Op == token.SHL || in.Op == token.SHR {
				return false
			}
			if !pureScalar(in.X.Type()) {
				return false
			}
		case *ssa.UnOp:
			if in.Op == token.MUL || in.Op == token.ARROW {
				return false
			}
			if !pureScalar(in.X.Type()) {
				return false
			}
		case *ssa.Convert:
			if !pureScalar(in.X.Type()) || !pureScalar(in.Type()) {
				return false
			}
		case *ssa.ChangeType:
			if !pureScalar(in.X.Type()) {
				return false
			}
		case *ssa.DebugRef:
		default:
			return false
		}
	}
	return true
}

func sameEdge(a, b ssa.Value) bool {
	if a == b {
		return true
	}
	ca, ok1 := a.(*ssa.Const)
	cb, ok2 := b.(*ssa.Const)
	if ok1 && ok2 && types.Identical(ca.Type(), cb.Type()) {
		if ca.Value == nil || cb.Value == nil {
			return ca.Value == nil && cb.Value == nil
		}
		return ca.Value.ExactString() == cb.Value.ExactString()
	}
	return false
}

func predIndex(b, p *ssa.BasicBlock) int {
	for i, q := range b.Preds {
		if q == p {
			return i
		}
	}
	return -1
}

// samePhis: entering blk from p or from q gives every leading phi the same operand.
func samePhis(blk, p, q *ssa.BasicBlock) bool {
	if p == q {
		return true
	}
	ip, iq := predIndex(blk, p), predIndex(blk, q)
	if ip < 0 || iq < 0 {
		return false
	}
	for _, in := range blk.Instrs {
		ph, ok := in.(*ssa.Phi)
		if !ok {
			break
		}
		if !sameEdge(ph.Edges[ip], ph.Edges[iq]) {
			return false
		}
	}
	return true
}

func buildRegion(root *ssa.BasicBlock) *region {
	r := &region{}
	r.nodes = append(r.nodes, regionNode{blk: root, parent: -1, maxExitT: -1})
	var walk func(n int)
	addExit := func(n int, onTrue bool, s *ssa.BasicBlock) int {
		from := r.nodes[n].blk
		// a block that is the target of both edges of one If has that
		// predecessor twice: keep such shapes out (no merge)
		for i := range r.exits {
			e := &r.exits[i]
			if e.blk == s && samePhis(s, e.pred, from) {
				e.paths = append(e.paths, regionPath{n, onTrue})
				return i
			}
		}
		r.exits = append(r.exits, regionExit{blk: s, pred: from, paths: []regionPath{{n, onTrue}}})
		return len(r.exits) - 1
	}
	walk = func(n int) {
		b := r.nodes[n].blk
		for k, s := range b.Succs {
			onTrue := k == 0
			absorb := s != root && len(s.Preds) == 1 && len(r.nodes) < regionMax && pureBlock(s)
			if absorb {
				if _, isPhi := s.Instrs[0].(*ssa.Phi); isPhi {
					absorb = false
				}
			}
			if absorb {
				r.nodes = append(r.nodes, regionNode{blk: s, parent: n, onTrue: onTrue, maxExitT: -1})
				walk(len(r.nodes) - 1)
			} else {
				addExit(n, onTrue, s)
			}
		}
	}
	walk(0)
	// maxExitT: for each node, the largest exit index reachable over its true edge
	isUnder := func(n, anc int, overTrue bool) bool {
		// is node n inside the subtree hanging off anc's (true/false) edge, or anc itself leaving by that edge
		for n > 0 {
			p := r.nodes[n].parent
			if p == anc {
				return r.nodes[n].onTrue == overTrue
			}
			n = p
		}
		return false
	}
	for ni := range r.nodes {
		mx := -1
		for ei, e := range r.exits {
			for _, p := range e.paths {
				if (p.node == ni && p.onTrue) || isUnder(p.node, ni, true) {
					if ei > mx {
						mx = ei
					}
				}
			}
		}
		r.nodes[ni].maxExitT = mx
	}
	for _, e := range r.exits {
		if len(e.paths) > 1 {
			r.merge = true
		}
	}
	if root.Succs[0] == root.Succs[1] {
		r.merge = false
	}
	return r
}

func (x *Exec) learn(b Bool, d bool) {
	if b.EqVar == "" {
		return
	}
	if d {
		x.known[b.EqVar] = b.EqC
	} else {
		s := x.notEq[b.EqVar]
		if s == nil {
			s = map[uint64]bool{}
			x.notEq[b.EqVar] = s
		}
		s[b.EqC] = true
	}
}

// regionDispatch: returns the block to continue in and the predecessor it is
// entered from.
func (x *Exec) regionDispatch(fr *frame, root *ssa.BasicBlock, c Bool) (*ssa.BasicBlock, *ssa.BasicBlock, bool) {
	if c.T == "" || x.job.NoIfConv {
		return nil, nil, false
	}
	var r *region
	if v, ok := regionCache.Load(root); ok {
		r = v.(*region)
	} else {
		r = buildRegion(root)
		regionCache.Store(root, r)
	}
	if !r.merge {
		return nil, nil, false
	}
	conds := make([]Bool, len(r.nodes))
	live := make([]bool, len(r.nodes))
	conds[0], live[0] = c, true
	for ni := 1; ni < len(r.nodes); ni++ {
		nd := r.nodes[ni]
		pc := conds[nd.parent]
		if !live[nd.parent] || (pc.T == "" && pc.C != nd.onTrue) {
			continue // not reachable on this path
		}
		live[ni] = true
		ins := nd.blk.Instrs
		for _, in := range ins[:len(ins)-1] {
			if v, ok := in.(ssa.Value); ok {
				x.steps++
				fr.env[v] = x.eval(fr, v)
			}
		}
		conds[ni] = x.get(fr, ins[len(ins)-1].(*ssa.If).Cond).(Bool)
	}
	// condition of one path given that every exit with a smaller index is already excluded
	pathCond := func(ei int, p regionPath) (Bool, bool) {
		if !live[p.node] {
			return Bool{}, false
		}
		acc := Bool{C: true}
		n, onTrue := p.node, p.onTrue
		for {
			cn := conds[n]
			if cn.T == "" {
				if cn.C != onTrue {
					return Bool{}, false
				}
			} else if onTrue {
				acc = x.and(cn, acc)
			} else if r.nodes[n].maxExitT >= ei {
				acc = x.and(not(cn), acc)
			}
			if n == 0 {
				break
			}
			onTrue = r.nodes[n].onTrue
			n = r.nodes[n].parent
		}
		return acc, true
	}
	type liveExit struct {
		ei    int
		cond  Bool
		paths []regionPath
	}
	var les []liveExit
	for ei, e := range r.exits {
		acc := Bool{C: false}
		var ps []regionPath
		for _, p := range e.paths {
			pc, ok := pathCond(ei, p)
			if !ok {
				continue
			}
			ps = append(ps, p)
			acc = x.or(acc, pc)
		}
		if len(ps) > 0 {
			les = append(les, liveExit{ei, acc, ps})
		}
	}
	if len(les) == 0 {
		panic("region without live exit in " + root.Parent().String())
	}
	take := len(les) - 1
	for i := 0; i < len(les)-1; i++ {
		if x.truth(les[i].cond) {
			take = i
			break
		}
	}
	le := les[take]
	if len(le.paths) == 1 {
		n, onTrue := le.paths[0].node, le.paths[0].onTrue
		for {
			x.learn(conds[n], onTrue)
			if n == 0 {
				break
			}
			onTrue = r.nodes[n].onTrue
			n = r.nodes[n].parent
		}
	}
	e := r.exits[le.ei]
	return e.blk, r.nodes[le.paths[0].node].blk, true
}

// smallInt: case-split a symbolic non-negative int over 0..limit (one path per
// feasible value); false if it can be larger.
func (x *Exec) smallInt(i Int, limit int) (int, bool) {
	i64 := ext(i, 64, i.S)
	for k := 0; k <= limit; k++ {
		if x.truth(x.binInt(token.EQL, i64, mkInt(int64(k))).(Bool)) {
			return k, true
		}
	}
	return 0, false
}
