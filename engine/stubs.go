package main

import (
	"encoding/json"
	"fmt"
	"go/token"
	"go/types"
	"math"
	"sort"
	"strconv"
	"strings"
	"unicode"

	"golang.org/x/tools/go/ssa"
)

// ---------- harness intrinsics (body-less functions named verif*) ----------
func (x *Exec) intrinsic(fn *ssa.Function, args []Val) (Val, bool) {
	switch fn.Name() {
	case "verifNondetInt":
		v := Int{W: 64, S: true, T: x.fresh("(_ BitVec 64)", "int")}
		x.tape = append(x.tape, TapeEntry{"int", v})
		return v, true
	case "verifNondetByte":
		v := Int{W: 8, T: x.fresh("(_ BitVec 8)", "byte")}
		x.tape = append(x.tape, TapeEntry{"int", v})
		return v, true
	case "verifNondetBool":
		v := Bool{T: x.fresh("Bool", "bool")}
		x.tape = append(x.tape, TapeEntry{"bool", v})
		return v, true
	case "verifNondetFloat64":
		v := x.symFloat("flt")
		x.tape = append(x.tape, TapeEntry{"float", v})
		return v, true
	case "verifNondetJSON":
		r := x.newLazy(int(args[0].(Int).sval()))
		r.L.root = true
		x.roots = append(x.roots, r.L)
		x.tape = append(x.tape, TapeEntry{"json", r})
		return r, true
	case "verifNondetString":
		mx := int(args[0].(Int).sval())
		n := x.choose("strlen", mx+1)
		s := x.symString(n, "str", true)
		x.tape = append(x.tape, TapeEntry{"str", s})
		return s, true
	case "verifNondetBytes":
		n := int(args[0].(Int).sval())
		s := x.symString(n, "bytes", false)
		x.tape = append(x.tape, TapeEntry{"str", s})
		return s, true
	case "verifChoose":
		n := int(args[0].(Int).sval())
		k := x.choose("choose", n)
		v := mkInt(int64(k))
		x.tape = append(x.tape, TapeEntry{"int", v})
		return v, true
	case "verifParam":
		name, _ := args[0].(Str).concrete()
		s, ok := x.job.Params[name]
		if !ok {
			panic(unsupported{"missing job parameter " + name})
		}
		n, err := strconv.Atoi(s)
		if err != nil {
			panic(unsupported{"job parameter " + name + " is not an int"})
		}
		return mkInt(int64(n)), true
	case "verifParamStr":
		name, _ := args[0].(Str).concrete()
		s, ok := x.job.Params[name]
		if !ok {
			panic(unsupported{"missing job parameter " + name})
		}
		return strOf(s), true
	case "verifHasParam":
		name, _ := args[0].(Str).concrete()
		_, ok := x.job.Params[name]
		return Bool{C: ok}, true
	case "verifAssume":
		b := args[0].(Bool)
		if b.T == "" {
			if !b.C {
				panic(pathEnd{"assume-false"})
			}
			return nil, true
		}
		x.sol.send("(assert " + b.T + ")\n")
		if b.EqVar != "" {
			x.known[b.EqVar] = b.EqC
		}
		if x.pos >= len(x.prefix) {
			if r := x.sol.check(); r == "unsat" {
				panic(pathEnd{"assume-infeasible"})
			}
		}
		return nil, true
	case "verifAssert":
		b := args[0].(Bool)
		id, _ := args[1].(Str).concrete()
		if !x.job.assertActive(id) {
			return nil, true
		}
		x.mustNot(not(b).term(), "assert", id)
		return nil, true
	case "verifFreeze":
		x.epoch++
		x.monitor = x.job.Frame
		return nil, true
	case "verifThaw":
		x.monitor = false
		return nil, true
	case "verifNote":
		tag, _ := args[0].(Str).concrete()
		x.notes = append(x.notes, Note{tag, args[1]})
		return nil, true
	case "verifAnd":
		return x.and(args[0].(Bool), args[1].(Bool)), true
	case "verifOr":
		return x.or(args[0].(Bool), args[1].(Bool)), true
	case "verifIteInt":
		return x.ite(args[0].(Bool), args[1], args[2]), true
	case "verifIsLazy":
		i := args[0].(Iface)
		return Bool{C: i.L != nil && !i.L.done}, true
	case "verifSameNode":
		a, b := args[0].(Iface), args[1].(Iface)
		if a.L != nil && a.L == b.L {
			return Bool{C: true}, true
		}
		if a.L != nil && a.L.done {
			a = a.L.val
		}
		if b.L != nil && b.L.done {
			b = b.L.val
		}
		if a.L == nil && b.L == nil && a.T != nil && b.T != nil {
			switch av := a.V.(type) {
			case Slice:
				if bv, ok := b.V.(Slice); ok && av.Arr != nil && av == bv {
					return Bool{C: true}, true
				}
			case *Map:
				if bv, ok := b.V.(*Map); ok && av != nil && av == bv {
					return Bool{C: true}, true
				}
			}
		}
		return Bool{C: false}, true
	case "verifDeepEqual":
		return x.deepEq(args[0].(Iface), args[1].(Iface)), true
	case "verifAbstractFloat":
		x.abstract = append(x.abstract, "decimal-literal-value")
		return x.symFloat("lit"), true
	case "verifMarshalOf":
		// "s is JSON text that decodes back to v"
		sv := args[0].(Str)
		v := args[1].(Iface)
		if sv.Op == nil {
			cs, ok := sv.concrete()
			if !ok {
				panic(unsupported{"JSON text with symbolic bytes in verifMarshalOf"})
			}
			var out interface{}
			if json.Unmarshal([]byte(cs), &out) != nil {
				return Bool{C: false}, true
			}
			return x.deepEq(x.goToVal(out), v), true
		}
		if sv.Op.Kind == "concat" {
			// JSON text followed/preceded by concrete whitespace decodes to the same value
			var rest []Str
			for _, p := range sv.Op.Parts {
				if cs, ok := p.concrete(); ok && strings.TrimSpace(cs) == "" {
					continue
				}
				rest = append(rest, p)
			}
			if len(rest) == 1 {
				return x.intrinsicCall("verifMarshalOf", []Val{rest[0], v})
			}
		}
		switch sv.Op.Kind {
		case "json.Marshal":
			// json.Marshal's output decodes back to its argument (standard-library fact)
			a, ok := sv.Op.Arg.(Iface)
			if !ok {
				return Bool{C: false}, true
			}
			return x.deepEq(a, v), true
		case "itoa":
			// decimal text of an integer decodes to float64(i)
			i, ok := sv.Op.Arg.(Int)
			rv := x.resolve(v)
			f, isF := rv.V.(Flt)
			if !ok || !isF {
				return Bool{C: false}, true
			}
			conv := x.convert(i, types.Typ[types.Int64], types.Typ[types.Float64]).(Flt)
			return x.fltBin(token.EQL, conv, f).(Bool), true
		}
		panic(unsupported{"verifMarshalOf on text of unknown provenance (" + sv.Op.Kind + ")"})
	case "verifGrammarAccepts":
		sl := args[0].(Slice)
		var ts []Int
		for _, e := range x.sliceElems(sl) {
			ts = append(ts, e.(Int))
		}
		return x.grammarAccepts(ts), true
	case "verifFinite":
		f := args[0].(Flt)
		if f.T == "" {
			return Bool{C: !math.IsNaN(f.C) && !math.IsInf(f.C, 0)}, true
		}
		return x.nmB(Bool{T: "(not (or (fp.isNaN " + f.T + ") (fp.isInfinite " + f.T + ")))"}), true
	case "verifFingerprint":
		return Str{}, true
	case "verifNative":
		return Bool{C: false}, true
	case "verifCatch":
		f := args[0].(Fn)
		return x.catch(func() { x.call(f.F, nil, f.Env) }), true
	case "verifMentions":
		return Bool{C: x.mentions(args[0].(Str), args[1].(Str))}, true
	case "verifIsOpaque":
		return Bool{C: args[0].(Str).Op != nil}, true
	case "verifUnreachable":
		id, _ := args[0].(Str).concrete()
		if x.job.assertActive(id) {
			x.fail("assert", id)
		}
		return nil, true
	}
	return nil, false
}

// intrinsicCall re-enters an intrinsic by name.
func (x *Exec) intrinsicCall(name string, args []Val) (Val, bool) {
	fn := x.P.harnessFunc(name)
	if fn == nil && x.P.cli != nil {
		fn = x.P.cli.Func(name)
	}
	if fn == nil {
		panic(unsupported{"intrinsic " + name + " not declared"})
	}
	return x.intrinsic(fn, args)
}

func (x *Exec) catch(f func()) (res Val) {
	x.catching++
	depth, nfn := x.depth, len(x.curFn)
	defer func() {
		x.catching--
		if r := recover(); r != nil {
			up, ok := r.(userPanic)
			if !ok {
				panic(r)
			}
			x.depth, x.curFn = depth, x.curFn[:nfn]
			msg := opaque("panic-value")
			if iv, ok := up.v.(Iface); ok {
				if s, ok := iv.V.(Str); ok {
					msg = s
				}
			}
			res = Tuple{Bool{C: true}, msg}
		}
	}()
	f()
	return Tuple{Bool{C: false}, Str{}}
}

// mentions: does the provenance of msg contain strconv.Quote(s)?
func (x *Exec) mentions(msg, s Str) bool {
	if msg.Op == nil {
		return false
	}
	if msg.Op.Kind == "quote" && len(msg.Op.Parts) == 1 {
		p := msg.Op.Parts[0]
		if p.Op == nil && s.Op == nil && len(p.B) == len(s.B) {
			same := true
			for i := range p.B {
				if p.B[i].T != s.B[i].T || (p.B[i].T == "" && p.B[i].C != s.B[i].C) {
					same = false
				}
			}
			if same {
				return true
			}
		}
	}
	for _, p := range msg.Op.Parts {
		if x.mentions(p, s) {
			return true
		}
	}
	return false
}

func (x *Exec) errorValue(msg Str) Iface {
	fn := x.P.stdFunc("errors", "New")
	return x.call(fn, []Val{msg}, nil).(Iface)
}

func concAll(args []Val, idx ...int) ([]string, bool) {
	out := make([]string, len(idx))
	for k, i := range idx {
		s, ok := args[i].(Str).concrete()
		if !ok {
			return nil, false
		}
		out[k] = s
	}
	return out, true
}

func (x *Exec) strParts(vs []Val) []Str {
	var out []Str
	for _, v := range vs {
		switch v := v.(type) {
		case Str:
			out = append(out, v)
		case Slice:
			for _, e := range x.sliceElems(v) {
				if i, ok := e.(Iface); ok {
					if s, ok := i.V.(Str); ok {
						out = append(out, s)
					} else if i.T != nil {
						if p, ok := i.V.(Struct); ok {
							for _, f := range p.F {
								if s, ok := f.(Str); ok {
									out = append(out, s)
								}
							}
						}
					}
				}
			}
		}
	}
	return out
}

// ---------- standard library stubs and models ----------
func (x *Exec) external(fn *ssa.Function, args []Val) (Val, bool) {
	name := x.fname(fn)
	if strings.HasSuffix(name, ".init") && fn.Synthetic != "" {
		if x.P.isSUTName(name) || (fn.Pkg != nil && x.initOK[fn.Pkg.Pkg.Path()]) {
			return nil, false
		}
		return nil, true
	}
	if strings.HasPrefix(name, "reflect.") || strings.HasPrefix(name, "(reflect.") || strings.HasPrefix(name, "(*reflect.") {
		return x.reflectExt(name, args), true
	}
	if x.job != nil && x.job.Redirect != nil {
		if h, ok := x.job.Redirect[name]; ok {
			hf := x.P.entryFunc(h)
			if hf == nil {
				panic(unsupported{"redirect target missing: " + h})
			}
			return x.call(hf, args, nil), true
		}
	}
	if name == "(*github.com/jmespath/go-jmespath.Lexer).tokenize" {
		if g, ok := x.P.lib.Members["verifStubActive"].(*ssa.Global); ok {
			if b, ok := x.globals[g].V.(Bool); ok && b.T == "" && b.C {
				return x.call(x.P.harnessFunc("verifTokenizeHook"), args[1:], nil), true
			}
		}
		return nil, false
	}
	switch name {
	case "internal/reflectlite.ValueOf":
		return x.rvOf(args[0].(Iface)), true
	case "(internal/reflectlite.Value).Len":
		return x.reflectExt("(reflect.Value).Len", args), true
	case "internal/reflectlite.Swapper", "reflect.Swapper":
		// func(i, j int) swapping two elements of the slice in place
		sv := x.resolve(args[0].(Iface))
		sl, ok := sv.V.(Slice)
		if !ok {
			x.fail("reflect-panic", "")
		}
		return Fn{Native: func(a []Val) Val {
			i := x.checkIndex(a[0].(Int), sl.Len)
			j := x.checkIndex(a[1].(Int), sl.Len)
			if !i.conc() || !j.conc() {
				panic(unsupported{"swap with symbolic indexes"})
			}
			if sl.Arr == nil {
				return nil
			}
			pi := Ptr{Base: sl.Arr, Path: []Step{{Idx: &Int{W: 64, S: true, C: i.C + uint64(sl.Off)}}}}
			pj := Ptr{Base: sl.Arr, Path: []Step{{Idx: &Int{W: 64, S: true, C: j.C + uint64(sl.Off)}}}}
			vi, vj := x.load(pi), x.load(pj)
			x.store(pi, vj)
			x.store(pj, vi)
			return nil
		}}, true
	}
	if strings.HasPrefix(name, "sync/atomic.") {
		// atomic operations are synchronised: plain load/store, never a frame write
		op := strings.TrimPrefix(name, "sync/atomic.")
		p, okp := args[0].(Ptr)
		if okp && p.Base != nil {
			switch {
			case strings.HasPrefix(op, "Load"):
				return x.loadPath(p.Base.V, p.Path), true
			case strings.HasPrefix(op, "Store"):
				p.Base.V = x.storePath(p.Base.V, p.Path, args[1])
				return nil, true
			case strings.HasPrefix(op, "Add"):
				cur := x.loadPath(p.Base.V, p.Path).(Int)
				nv := x.binInt(token.ADD, cur, args[1].(Int))
				p.Base.V = x.storePath(p.Base.V, p.Path, nv)
				return nv, true
			case strings.HasPrefix(op, "Swap"):
				cur := x.loadPath(p.Base.V, p.Path)
				p.Base.V = x.storePath(p.Base.V, p.Path, args[1])
				return cur, true
			case strings.HasPrefix(op, "CompareAndSwap"):
				cur := x.loadPath(p.Base.V, p.Path)
				eq := x.binop(token.EQL, cur, args[1]).(Bool)
				if x.truth(eq) {
					p.Base.V = x.storePath(p.Base.V, p.Path, args[2])
					return Bool{C: true}, true
				}
				return Bool{C: false}, true
			}
		}
		panic(unsupported{name})
	}
	if strings.HasPrefix(name, "(*sync.") {
		if v, ok := x.syncModel(name, args); ok {
			return v, true
		}
	}
	switch name {
	case "strings.Replace":
		if c, ok := concAll(args, 0, 1, 2); ok && args[3].(Int).conc() {
			return strOf(strings.Replace(c[0], c[1], c[2], int(args[3].(Int).sval()))), true
		}
		if m := x.P.harnessFunc("verifModelReplace"); m != nil {
			return x.call(m, args, nil), true
		}
		panic(unsupported{"strings.Replace on symbolic string without model"})
	case "strings.Repeat":
		n := x.subst(args[1].(Int))
		if s, ok := args[0].(Str).concrete(); ok && n.conc() {
			if n.sval() < 0 {
				x.fail("explicit-panic", "strings.Repeat")
			}
			if n.sval() > 1<<16 {
				return opaque("repeat", args[0].(Str)), true
			}
			return strOf(strings.Repeat(s, int(n.sval()))), true
		}
		if !n.conc() {
			x.mustNot("(bvslt "+n.T+" (_ bv0 64))", "explicit-panic", "strings.Repeat")
			if s, ok := args[0].(Str).concrete(); ok {
				if k, ok := x.smallInt(n, 48); ok {
					return strOf(strings.Repeat(s, k)), true
				}
			}
		}
		return opaque("repeat", args[0].(Str)), true
	case "strings.Contains":
		return x.strContains(args[0].(Str), args[1].(Str)), true
	case "strings.Join":
		elems := args[0].(Slice)
		sep := args[1].(Str)
		res := Str{}
		for i, e := range x.sliceElems(elems) {
			if i > 0 {
				res = x.strConcat(res, sep)
			}
			res = x.strConcat(res, e.(Str))
		}
		return res, true
	case "strings.IndexByte", "internal/bytealg.IndexByteString", "internal/stringslite.IndexByte":
		return x.strIndexOf(args[0].(Str), Str{B: []Int{args[1].(Int)}}, false), true
	case "strings.LastIndexByte":
		return x.strIndexOf(args[0].(Str), Str{B: []Int{args[1].(Int)}}, true), true
	case "strings.Index", "internal/bytealg.IndexString", "internal/stringslite.Index":
		return x.strIndexOf(args[0].(Str), args[1].(Str), false), true
	case "strings.LastIndex":
		return x.strIndexOf(args[0].(Str), args[1].(Str), true), true
	case "strings.ContainsRune", "strings.IndexRune":
		r := x.subst(args[1].(Int))
		if !r.conc() {
			panic(unsupported{name + " with symbolic rune"})
		}
		idx := x.strIndexOf(args[0].(Str), strOf(string(rune(r.sval()))), false)
		if name == "strings.IndexRune" {
			return idx, true
		}
		return x.binInt(token.GEQ, idx, mkInt(0)), true
	case "strings.ContainsAny", "strings.IndexAny":
		chars, ok := args[1].(Str).concrete()
		if !ok {
			panic(unsupported{name + " with symbolic character set"})
		}
		var best Val = mkInt(-1)
		for _, r := range chars {
			idx := x.strIndexOf(args[0].(Str), strOf(string(r)), false)
			// minimum of the non-negative indices
			bi := best.(Int)
			take := x.and(x.binInt(token.GEQ, idx, mkInt(0)).(Bool), x.or(x.binInt(token.LSS, bi, mkInt(0)).(Bool), x.binInt(token.LSS, idx, bi).(Bool)))
			best = x.ite(take, idx, bi)
		}
		if name == "strings.IndexAny" {
			return best, true
		}
		return x.binInt(token.GEQ, best.(Int), mkInt(0)), true
	case "strings.Count":
		if a, ok := concAll(args, 0, 1); ok {
			return mkInt(int64(strings.Count(a[0], a[1]))), true
		}
		sub := args[1].(Str)
		if len(sub.B) != 1 {
			panic(unsupported{"strings.Count with a symbolic multi-byte pattern"})
		}
		var cnt Val = mkInt(0)
		for _, b := range args[0].(Str).B {
			e := x.binInt(token.EQL, b, sub.B[0]).(Bool)
			cnt = x.binInt(token.ADD, cnt.(Int), x.ite(e, mkInt(1), mkInt(0)).(Int))
		}
		return cnt, true
	case "strings.ToLower", "strings.ToUpper", "strings.TrimSpace":
		if a, ok := concAll(args, 0); ok {
			switch name {
			case "strings.ToLower":
				return strOf(strings.ToLower(a[0])), true
			case "strings.ToUpper":
				return strOf(strings.ToUpper(a[0])), true
			case "strings.TrimSpace":
				return strOf(strings.TrimSpace(a[0])), true
			}
		}
		return nil, false // symbolic: interpreted from the standard library's source
	case "internal/bytealg.CountString":
		return x.external(x.P.stdFunc("strings", "Count"), []Val{args[0], Str{B: []Int{args[1].(Int)}}})
	case "internal/bytealg.MakeNoZero":
		n := x.subst(args[0].(Int))
		if !n.conc() || n.sval() < 0 || n.sval() > 1<<20 {
			panic(unsupported{"MakeNoZero with symbolic length"})
		}
		a := Array{E: make([]Val, n.sval())}
		for i := range a.E {
			a.E[i] = Int{W: 8}
		}
		return Slice{Arr: x.newCell(a, "bytes"), Len: int(n.sval()), Cap: int(n.sval())}, true
	case "fmt.Errorf":
		parts := x.strParts(args)
		return x.errorValue(opaque("errorf", parts...)), true
	case "fmt.Sprintf":
		if v, ok := x.sprintf(args); ok {
			return v, true
		}
		return opaque("sprintf", x.strParts(args)...), true
	case "fmt.Sprint", "fmt.Sprintln":
		return opaque("sprintf", x.strParts(args)...), true
	case "strconv.Quote":
		return opaque("quote", args[0].(Str)), true
	case "strconv.QuoteRuneToASCII", "strconv.QuoteRune", "strconv.QuoteToASCII":
		return opaque("quoterune"), true
	case "strconv.Itoa", "strconv.FormatInt":
		i := x.subst(args[0].(Int))
		base := int64(10)
		if name == "strconv.FormatInt" {
			b := x.subst(args[1].(Int))
			if !b.conc() {
				panic(unsupported{"FormatInt with symbolic base"})
			}
			base = b.sval()
		}
		if i.conc() {
			return strOf(strconv.FormatInt(i.sval(), int(base))), true
		}
		o := opaque("itoa")
		if base == 10 {
			o.Op.Arg = i // decimal text of i
		} else {
			o.Op.Kind = "itoa-other-base"
		}
		return o, true
	case "(github.com/jmespath/go-jmespath.tokType).String", "(github.com/jmespath/go-jmespath.astNodeType).String":
		return opaque(fn.Name()), true
	case "(*bytes.Buffer).WriteString", "(*bytes.Buffer).String", "(*bytes.Buffer).Reset", "(*bytes.Buffer).WriteByte", "(*bytes.Buffer).Len", "(*bytes.Buffer).Write", "(*bytes.Buffer).WriteRune", "(*bytes.Buffer).Grow":
		return x.byteBuf(fn.Name(), args, 0), true
	case "(*strings.Builder).WriteString", "(*strings.Builder).String", "(*strings.Builder).Reset", "(*strings.Builder).WriteByte", "(*strings.Builder).Len", "(*strings.Builder).Write", "(*strings.Builder).WriteRune", "(*strings.Builder).Grow":
		return x.byteBuf(fn.Name(), args, 1), true
	case "encoding/json.Unmarshal":
		return x.jsonUnmarshal(args), true
	case "encoding/json.Marshal", "encoding/json.MarshalIndent":
		// contract: opaque text of exactly the argument, or an error
		arg := args[0].(Iface)
		ok := Bool{T: x.fresh("Bool", "marshalok")}
		x.abstract = append(x.abstract, "json.Marshal")
		if x.truth(ok) {
			op := &Opaque{Kind: "json.Marshal", Arg: arg}
			return Tuple{Slice{Arr: &Cell{V: OpaqueBytes{op}, Name: "marshal", Epoch: x.epoch}, Len: 1, Cap: 1}, Iface{}}, true
		}
		return Tuple{Slice{}, x.errorValue(opaque("marshal-error"))}, true
	case "strconv.ParseFloat":
		return x.parseFloat(args[0].(Str)), true
	case "math.Abs":
		f := args[0].(Flt)
		if f.T == "" {
			return Flt{C: math.Abs(f.C)}, true
		}
		return x.nmF(Flt{T: "(fp.abs " + f.T + ")"}), true
	case "math.Ceil":
		f := args[0].(Flt)
		if f.T == "" {
			return Flt{C: math.Ceil(f.C)}, true
		}
		return x.nmF(Flt{T: "(fp.roundToIntegral RTP " + f.T + ")"}), true
	case "math.Floor":
		f := args[0].(Flt)
		if f.T == "" {
			return Flt{C: math.Floor(f.C)}, true
		}
		return x.nmF(Flt{T: "(fp.roundToIntegral RTN " + f.T + ")"}), true
	case "math.Trunc", "math.Round", "math.RoundToEven", "math.Sqrt":
		f := args[0].(Flt)
		if f.T == "" {
			switch name {
			case "math.Trunc":
				return Flt{C: math.Trunc(f.C)}, true
			case "math.Round":
				return Flt{C: math.Round(f.C)}, true
			case "math.RoundToEven":
				return Flt{C: math.RoundToEven(f.C)}, true
			}
			return Flt{C: math.Sqrt(f.C)}, true
		}
		switch name {
		case "math.Trunc":
			return x.nmF(Flt{T: "(fp.roundToIntegral RTZ " + f.T + ")"}), true
		case "math.Round":
			return x.nmF(Flt{T: "(fp.roundToIntegral RNA " + f.T + ")"}), true
		case "math.RoundToEven":
			return x.nmF(Flt{T: "(fp.roundToIntegral RNE " + f.T + ")"}), true
		}
		return x.nmF(Flt{T: "(fp.sqrt RNE " + f.T + ")"}), true
	case "math.Signbit":
		f := args[0].(Flt)
		if f.T == "" {
			return Bool{C: math.Signbit(f.C)}, true
		}
		return x.nmB(Bool{T: "(fp.isNegative " + f.T + ")"}), true
	case "math.IsNaN":
		f := args[0].(Flt)
		if f.T == "" {
			return Bool{C: math.IsNaN(f.C)}, true
		}
		return x.nmB(Bool{T: "(fp.isNaN " + f.T + ")"}), true
	case "math.IsInf":
		f := args[0].(Flt)
		sg := args[1].(Int).sval()
		if f.T == "" {
			return Bool{C: math.IsInf(f.C, int(sg))}, true
		}
		t := "(fp.isInfinite " + f.T + ")"
		if sg > 0 {
			t = "(and " + t + " (fp.isPositive " + f.T + "))"
		} else if sg < 0 {
			t = "(and " + t + " (fp.isNegative " + f.T + "))"
		}
		return x.nmB(Bool{T: t}), true
	case "math.Inf":
		return Flt{C: math.Inf(int(args[0].(Int).sval()))}, true
	case "math.NaN":
		return Flt{T: "(_ NaN 11 53)"}, true
	case "unicode.ToUpper", "unicode.ToLower", "unicode.IsUpper", "unicode.IsLetter":
		r := x.subst(args[0].(Int))
		if !r.conc() {
			if x.initOK["unicode"] {
				return nil, false // interpreted from the standard library's source and tables
			}
			panic(unsupported{name + " on symbolic rune"})
		}
		switch name {
		case "unicode.ToUpper":
			return Int{W: 32, S: true, C: uint64(uint32(unicode.ToUpper(rune(r.sval()))))}, true
		case "unicode.ToLower":
			return Int{W: 32, S: true, C: uint64(uint32(unicode.ToLower(rune(r.sval()))))}, true
		case "unicode.IsUpper":
			return Bool{C: unicode.IsUpper(rune(r.sval()))}, true
		default:
			return Bool{C: unicode.IsLetter(rune(r.sval()))}, true
		}
	case "strconv.cloneString", "internal/stringslite.Clone", "strings.Clone":
		return args[0], true
	case "strconv.Atoi":
		if s, ok := args[0].(Str).concrete(); ok {
			n, err := strconv.Atoi(s)
			if err != nil {
				return Tuple{mkInt(int64(n)), x.errorValue(opaque("atoi-error"))}, true
			}
			return Tuple{mkInt(int64(n)), Iface{}}, true
		}
		if m := x.P.harnessFunc("verifModelAtoi"); m != nil {
			return x.call(m, args, nil), true
		}
		panic(unsupported{"strconv.Atoi on symbolic string without model"})
	case "os.Exit":
		panic(pathEnd{"os.Exit"})
	}
	return nil, false
}

func (x *Exec) strContains(s, sub Str) Bool {
	if a, ok := s.concrete(); ok {
		if b, ok := sub.concrete(); ok {
			return Bool{C: strings.Contains(a, b)}
		}
	}
	x.needContent(s, "strings.Contains")
	x.needContent(sub, "strings.Contains")
	n, m := len(s.B), len(sub.B)
	if m == 0 {
		return Bool{C: true}
	}
	res := Bool{C: false}
	for i := 0; i+m <= n; i++ {
		res = x.or(res, x.strEq(Str{B: s.B[i : i+m]}, sub))
	}
	return res
}

// strIndexOf: index of the first (last) occurrence of sub in s, or -1, as a term.
func (x *Exec) strIndexOf(s, sub Str, last bool) Int {
	x.needContent(s, "strings.Index")
	x.needContent(sub, "strings.Index")
	n, m := len(s.B), len(sub.B)
	if m == 0 {
		if last {
			return mkInt(int64(n))
		}
		return mkInt(0)
	}
	var res Val = mkInt(-1)
	if !last {
		for i := n - m; i >= 0; i-- {
			res = x.ite(x.strEq(Str{B: s.B[i : i+m]}, sub), mkInt(int64(i)), res)
		}
	} else {
		for i := 0; i+m <= n; i++ {
			res = x.ite(x.strEq(Str{B: s.B[i : i+m]}, sub), mkInt(int64(i)), res)
		}
	}
	return res.(Int)
}

// byteBuf models bytes.Buffer (content in field 0) and strings.Builder (field 1).
func (x *Exec) byteBuf(method string, args []Val, field int) Val {
	p := args[0].(Ptr)
	if p.Base == nil {
		x.fail("nil-deref", "")
	}
	fp := Ptr{Base: p.Base, Path: append(append([]Step{}, p.Path...), Step{Field: field})}
	cur := x.load(fp).(Slice)
	switch method {
	case "Grow":
		return nil
	case "WriteString", "WriteByte", "Write", "WriteRune":
		var add []Val
		switch method {
		case "WriteString":
			s := args[1].(Str)
			x.needContent(s, "WriteString")
			for _, b := range s.B {
				add = append(add, b)
			}
		case "Write":
			add = append(add, x.sliceElems(args[1].(Slice))...)
		case "WriteRune":
			r := x.subst(args[1].(Int))
			var enc Str
			if r.conc() {
				enc = strOf(string(rune(r.sval())))
			} else {
				enc = x.encodeRune(ext(r, 32, true))
			}
			for _, b := range enc.B {
				add = append(add, b)
			}
		default:
			add = []Val{args[1]}
		}
		n := Array{}
		n.E = append(n.E, x.sliceElems(cur)...)
		n.E = append(n.E, add...)
		x.store(fp, Slice{Arr: x.newCell(n, "buffer"), Len: len(n.E), Cap: len(n.E)})
		if method == "WriteByte" {
			return Iface{}
		}
		return Tuple{mkInt(int64(len(add))), Iface{}}
	case "String":
		r := Str{}
		for _, e := range x.sliceElems(cur) {
			r.B = append(r.B, e.(Int))
		}
		return r
	case "Len":
		return mkInt(int64(cur.Len))
	case "Reset":
		x.store(fp, Slice{})
		return nil
	}
	panic(unsupported{"bytes.Buffer." + method})
}

// parseFloat: contract model of strconv.ParseFloat(s, 64). Exact for
// concrete strings (calls the real function). For symbolic strings: the
// result is non-finite with a nil error iff s spells inf/infinity/nan
// (optionally signed, any case) -- that part is exact; otherwise it is an
// error or an arbitrary finite double (abstract).
func (x *Exec) parseFloat(s Str) Val {
	if cs, ok := s.concrete(); ok {
		f, err := strconv.ParseFloat(cs, 64)
		if err != nil {
			return Tuple{Flt{C: f}, x.errorValue(opaque("parsefloat-error"))}
		}
		if math.IsNaN(f) {
			return Tuple{Flt{T: "(_ NaN 11 53)"}, Iface{}}
		}
		return Tuple{Flt{C: f}, Iface{}}
	}
	x.needContent(s, "ParseFloat")
	n := len(s.B)
	lower := func(b Int) string { return "(bvor " + b.term() + " #x20)" }
	spell := func(off int, w string) string {
		if off+len(w) != n {
			return "false"
		}
		ps := []string{}
		for i := 0; i < len(w); i++ {
			ps = append(ps, fmt.Sprintf("(= %s #x%02x)", lower(s.B[off+i]), w[i]))
		}
		return "(and " + strings.Join(ps, " ") + ")"
	}
	special := func(w string) (plain, plus, minus string) {
		plain = spell(0, w)
		if n == len(w)+1 {
			plus = "(and (= " + s.B[0].term() + " #x2b) " + spell(1, w) + ")"
			minus = "(and (= " + s.B[0].term() + " #x2d) " + spell(1, w) + ")"
		} else {
			plus, minus = "false", "false"
		}
		return
	}
	i1, i1p, i1m := special("inf")
	i2, i2p, i2m := special("infinity")
	nn, nnp, nnm := special("nan")
	posInf := x.nmB(Bool{T: "(or " + i1 + " " + i1p + " " + i2 + " " + i2p + ")"})
	negInf := x.nmB(Bool{T: "(or " + i1m + " " + i2m + ")"})
	isNaN := x.nmB(Bool{T: "(or " + nn + " " + nnp + " " + nnm + ")"})
	if x.truth(posInf) {
		return Tuple{Flt{C: math.Inf(1)}, Iface{}}
	}
	if x.truth(negInf) {
		return Tuple{Flt{C: math.Inf(-1)}, Iface{}}
	}
	if x.truth(isNaN) {
		return Tuple{Flt{T: "(_ NaN 11 53)"}, Iface{}}
	}
	okb := Bool{T: x.fresh("Bool", "pfok")}
	x.abstract = append(x.abstract, "strconv.ParseFloat")
	if x.truth(okb) {
		return Tuple{x.symFloat("pf"), Iface{}}
	}
	return Tuple{Flt{}, x.errorValue(opaque("parsefloat-error"))}
}

// jsonUnmarshal: concrete bytes call the real decoder; symbolic bytes go to
// the Go model in the harness overlay (verifModelJSON*), if present.
func (x *Exec) jsonUnmarshal(args []Val) Val {
	s := args[0].(Slice)
	tgt := args[1].(Iface)
	p, isPtr := tgt.V.(Ptr)
	if !isPtr {
		panic(unsupported{"json.Unmarshal target"})
	}
	elemT := tgt.T.Underlying().(*types.Pointer).Elem()
	_, wantStr := elemT.Underlying().(*types.Basic)
	bs := make([]byte, s.Len)
	conc := true
	for i, e := range x.sliceElems(s) {
		b := x.subst(e.(Int))
		if !b.conc() {
			conc = false
			break
		}
		bs[i] = byte(b.C)
	}
	if conc {
		if wantStr {
			var out string
			if err := json.Unmarshal(bs, &out); err != nil {
				return x.errorValue(opaque("json-error"))
			}
			x.store(p, strOf(out))
			return Iface{}
		}
		var out interface{}
		if err := json.Unmarshal(bs, &out); err != nil {
			return x.errorValue(opaque("json-error"))
		}
		x.store(p, x.goToVal(out))
		return Iface{}
	}
	var model *ssa.Function
	if wantStr {
		model = x.P.harnessFunc("verifModelJSONString")
	} else {
		model = x.P.harnessFunc("verifModelJSONValue")
	}
	if model == nil {
		panic(unsupported{"json.Unmarshal on symbolic bytes without model"})
	}
	str := Str{}
	for _, e := range x.sliceElems(s) {
		str.B = append(str.B, e.(Int))
	}
	t := x.call(model, []Val{str}, nil).(Tuple)
	ok := t[1].(Bool)
	if x.truth(ok) {
		x.store(p, t[0])
		return Iface{}
	}
	return x.errorValue(opaque("json-error"))
}

func (x *Exec) goToVal(v interface{}) Iface {
	switch v := v.(type) {
	case nil:
		return Iface{}
	case bool:
		return Iface{T: types.Typ[types.Bool], V: Bool{C: v}}
	case float64:
		return Iface{T: types.Typ[types.Float64], V: Flt{C: v}}
	case string:
		return Iface{T: types.Typ[types.String], V: strOf(v)}
	case []interface{}:
		a := Array{E: make([]Val, len(v))}
		for i := range v {
			a.E[i] = x.goToVal(v[i])
		}
		return Iface{T: tSliceI, V: Slice{Arr: x.newCell(a, "json"), Len: len(v), Cap: len(v)}}
	case map[string]interface{}:
		m := &Map{Epoch: x.epoch}
		ks := []string{}
		for k := range v {
			ks = append(ks, k)
		}
		sort.Strings(ks)
		for _, k := range ks {
			m.Keys = append(m.Keys, strOf(k))
			m.Vals = append(m.Vals, x.goToVal(v[k]))
		}
		return Iface{T: tMapSI, V: m}
	}
	panic("goToVal")
}

// ---------- reflect model ----------
func kindOfType(t types.Type) uint64 {
	switch t := t.Underlying().(type) {
	case *types.Basic:
		switch t.Kind() {
		case types.Bool:
			return 1
		case types.Int:
			return 2
		case types.Int8:
			return 3
		case types.Int16:
			return 4
		case types.Int32:
			return 5
		case types.Int64:
			return 6
		case types.Uint:
			return 7
		case types.Uint8:
			return 8
		case types.Uint16:
			return 9
		case types.Uint32:
			return 10
		case types.Uint64:
			return 11
		case types.Uintptr:
			return 12
		case types.Float32:
			return 13
		case types.Float64:
			return 14
		case types.String:
			return 24
		case types.UnsafePointer:
			return 26
		}
	case *types.Array:
		return 17
	case *types.Chan:
		return 18
	case *types.Signature:
		return 19
	case *types.Interface:
		return 20
	case *types.Map:
		return 21
	case *types.Pointer:
		return 22
	case *types.Slice:
		return 23
	case *types.Struct:
		return 25
	}
	panic(unsupported{"reflect kind of " + t.String()})
}

type RVal struct {
	t     types.Type
	v     Val
	valid bool
}

func (x *Exec) rvOf(i Iface) RVal {
	i = x.resolve(i)
	if i.T == nil {
		return RVal{}
	}
	return RVal{t: i.T, v: i.V, valid: true}
}

func (x *Exec) reflectTypeMethod(rt RT, method string, args []Val) Val {
	switch method {
	case "Kind":
		return Int{W: 64, S: false, C: kindOfType(rt.t)}
	case "Name":
		if n, ok := rt.t.(*types.Named); ok {
			return strOf(n.Obj().Name())
		}
		if b, ok := rt.t.(*types.Basic); ok {
			return strOf(b.Name())
		}
		return strOf("")
	case "PkgPath":
		if n, ok := rt.t.(*types.Named); ok && n.Obj().Pkg() != nil {
			return strOf(n.Obj().Pkg().Path())
		}
		return strOf("")
	case "String":
		return strOf(types.TypeString(rt.t, func(p *types.Package) string { return p.Name() }))
	case "NumField":
		st, ok := rt.t.Underlying().(*types.Struct)
		if !ok {
			x.fail("reflect-panic", "")
		}
		return mkInt(int64(st.NumFields()))
	case "Field", "FieldByName":
		st, ok := rt.t.Underlying().(*types.Struct)
		if !ok {
			x.fail("reflect-panic", "")
		}
		idx := -1
		if method == "Field" {
			i := x.subst(args[0].(Int))
			if !i.conc() || i.sval() < 0 || int(i.sval()) >= st.NumFields() {
				x.fail("reflect-panic", "")
			}
			idx = int(i.sval())
		} else {
			nm, okc := args[0].(Str).concrete()
			if !okc {
				panic(unsupported{"Type.FieldByName with symbolic name"})
			}
			for i := 0; i < st.NumFields(); i++ {
				if st.Field(i).Name() == nm {
					idx = i
				}
			}
		}
		sft := x.P.prog.ImportedPackage("reflect").Type("StructField").Type()
		sf := x.zero(sft).(Struct)
		sfs := sft.Underlying().(*types.Struct)
		if idx >= 0 {
			f := st.Field(idx)
			for k := 0; k < sfs.NumFields(); k++ {
				switch sfs.Field(k).Name() {
				case "Name":
					sf.F[k] = strOf(f.Name())
				case "Type":
					sf.F[k] = Iface{T: types.Typ[types.UnsafePointer], V: RT{f.Type()}}
				case "Index":
					sf.F[k] = Slice{Arr: x.newCell(Array{E: []Val{mkInt(int64(idx))}}, "sfindex"), Len: 1, Cap: 1}
				case "Anonymous":
					sf.F[k] = Bool{C: f.Embedded()}
				case "PkgPath":
					if !f.Exported() && f.Pkg() != nil {
						sf.F[k] = strOf(f.Pkg().Path())
					}
				}
			}
		}
		if method == "Field" {
			return sf
		}
		return Tuple{sf, Bool{C: idx >= 0}}
	case "Elem":
		switch t := rt.t.Underlying().(type) {
		case *types.Pointer:
			return Iface{T: types.Typ[types.UnsafePointer], V: RT{t.Elem()}}
		case *types.Slice:
			return Iface{T: types.Typ[types.UnsafePointer], V: RT{t.Elem()}}
		}
	}
	panic(unsupported{"reflect.Type." + method})
}

func (x *Exec) reflectExt(name string, args []Val) Val {
	rv := func() RVal {
		r, ok := args[0].(RVal)
		if !ok {
			if _, isZero := args[0].(Struct); isZero {
				return RVal{} // the zero reflect.Value
			}
			panic(unsupported{"reflect.Value of unknown provenance in " + name})
		}
		return r
	}
	mustValid := func(r RVal) {
		if !r.valid {
			x.fail("reflect-panic", "")
		}
	}
	switch name {
	case "reflect.ValueOf":
		return x.rvOf(args[0].(Iface))
	case "reflect.TypeOf":
		v := x.resolve(args[0].(Iface))
		if v.T == nil {
			return Iface{}
		}
		return Iface{T: types.Typ[types.UnsafePointer], V: RT{v.T}}
	case "(reflect.Value).Kind":
		r := rv()
		if !r.valid {
			return Int{W: 64, S: false, C: 0}
		}
		return Int{W: 64, S: false, C: kindOfType(r.t)}
	case "(reflect.Value).IsValid":
		return Bool{C: rv().valid}
	case "(reflect.Value).Len":
		r := rv()
		mustValid(r)
		switch vv := r.v.(type) {
		case Slice:
			return mkInt(int64(vv.Len))
		case *Map:
			if vv == nil {
				return mkInt(0)
			}
			x.forceKeys(vv)
			return mkInt(int64(len(vv.Keys)))
		case Str:
			return x.strLen(vv)
		case Array:
			return mkInt(int64(len(vv.E)))
		}
		x.fail("reflect-panic", "")
	case "(reflect.Value).IsNil":
		r := rv()
		mustValid(r)
		switch vv := r.v.(type) {
		case Ptr:
			return Bool{C: vv.Base == nil}
		case Slice:
			return Bool{C: vv.Arr == nil}
		case *Map:
			return Bool{C: vv == nil}
		case Iface:
			return Bool{C: x.resolve(vv).T == nil}
		case Fn:
			return Bool{C: vv.F == nil}
		}
		x.fail("reflect-panic", "")
	case "(reflect.Value).Index":
		r := rv()
		mustValid(r)
		i := x.subst(args[1].(Int))
		switch vv := r.v.(type) {
		case Slice:
			idx := x.checkIndex(i, vv.Len)
			et := r.t.Underlying().(*types.Slice).Elem()
			if !idx.conc() {
				return RVal{t: et, v: x.loadPath(Array{E: x.sliceElems(vv)}, []Step{{Idx: &idx}}), valid: true}
			}
			return RVal{t: et, v: x.sliceElems(vv)[idx.sval()], valid: true}
		case Str:
			return RVal{t: types.Typ[types.Uint8], v: x.strIndex(vv, i), valid: true}
		}
		x.fail("reflect-panic", "")
	case "(reflect.Value).Interface":
		r := rv()
		mustValid(r)
		if types.IsInterface(r.t) {
			return r.v.(Iface)
		}
		return Iface{T: r.t, V: r.v}
	case "(reflect.Value).Elem":
		r := rv()
		mustValid(r)
		switch vv := r.v.(type) {
		case Ptr:
			if vv.Base == nil {
				return RVal{}
			}
			return RVal{t: r.t.Underlying().(*types.Pointer).Elem(), v: x.load(vv), valid: true}
		case Iface:
			return x.rvOf(vv)
		}
		x.fail("reflect-panic", "")
	case "(reflect.Value).FieldByName":
		r := rv()
		mustValid(r)
		st, ok := r.t.Underlying().(*types.Struct)
		if !ok {
			x.fail("reflect-panic", "")
		}
		nm, okc := args[1].(Str).concrete()
		if !okc {
			panic(unsupported{"FieldByName with symbolic name"})
		}
		for i := 0; i < st.NumFields(); i++ {
			if st.Field(i).Name() == nm {
				if !st.Field(i).Exported() {
					// Interface() on it would panic in the real reflect
					return RVal{t: st.Field(i).Type(), v: r.v.(Struct).F[i], valid: true}
				}
				return RVal{t: st.Field(i).Type(), v: r.v.(Struct).F[i], valid: true}
			}
		}
		return RVal{}
	case "(reflect.Value).NumField":
		r := rv()
		mustValid(r)
		st, ok := r.t.Underlying().(*types.Struct)
		if !ok {
			x.fail("reflect-panic", "")
		}
		return mkInt(int64(st.NumFields()))
	case "(reflect.Value).Field":
		r := rv()
		mustValid(r)
		st, ok := r.t.Underlying().(*types.Struct)
		i := x.subst(args[1].(Int))
		if !ok || !i.conc() || i.sval() < 0 || int(i.sval()) >= st.NumFields() {
			x.fail("reflect-panic", "")
		}
		return RVal{t: st.Field(int(i.sval())).Type(), v: r.v.(Struct).F[i.sval()], valid: true}
	case "(reflect.Value).FieldByIndex":
		r := rv()
		mustValid(r)
		cur := r
		for _, e := range x.sliceElems(args[1].(Slice)) {
			i := x.subst(e.(Int))
			if p, isPtr := cur.v.(Ptr); isPtr {
				if p.Base == nil {
					x.fail("reflect-panic", "")
				}
				cur = RVal{t: cur.t.Underlying().(*types.Pointer).Elem(), v: x.load(p), valid: true}
			}
			st, ok := cur.t.Underlying().(*types.Struct)
			if !ok || !i.conc() || i.sval() < 0 || int(i.sval()) >= st.NumFields() {
				x.fail("reflect-panic", "")
			}
			cur = RVal{t: st.Field(int(i.sval())).Type(), v: cur.v.(Struct).F[i.sval()], valid: true}
		}
		return cur
	case "(reflect.Value).Type":
		r := rv()
		mustValid(r)
		return Iface{T: types.Typ[types.UnsafePointer], V: RT{r.t}}
	case "(reflect.Value).Float":
		return rv().v
	case "(reflect.Value).String":
		return rv().v
	case "(reflect.Value).Bool":
		return rv().v
	case "reflect.DeepEqual":
		return x.deepEq(args[0].(Iface), args[1].(Iface))
	}
	panic(unsupported{"reflect function " + name})
}

// deepEq models reflect.DeepEqual on interface values.
func (x *Exec) deepEq(a, b Iface) Bool {
	x.rdepth++
	defer func() { x.rdepth-- }()
	if x.rdepth > 60 {
		panic(unsupported{"DeepEqual on a cyclic or very deep value"})
	}
	if a.L != nil && a.L == b.L {
		// identical node: equal unless it contains NaN (documents are finite)
		return Bool{C: true}
	}
	a, b = x.resolve(a), x.resolve(b)
	if a.T == nil || b.T == nil {
		return Bool{C: a.T == nil && b.T == nil}
	}
	if !types.Identical(a.T, b.T) {
		return Bool{C: false}
	}
	return x.deepEqVal(a.T, a.V, b.V)
}

func (x *Exec) deepEqVal(t types.Type, av, bv Val) Bool {
	switch a := av.(type) {
	case Slice:
		b := bv.(Slice)
		if (a.Arr == nil) != (b.Arr == nil) {
			return Bool{C: false}
		}
		if a.Len != b.Len {
			return Bool{C: false}
		}
		if a.Arr == b.Arr && a.Off == b.Off {
			return Bool{C: true}
		}
		et := t.Underlying().(*types.Slice).Elem()
		r := Bool{C: true}
		ae, be := x.sliceElems(a), x.sliceElems(b)
		for i := range ae {
			r = x.and(r, x.deepEqVal(et, ae[i], be[i]))
			if r.T == "" && !r.C {
				return r
			}
		}
		return r
	case *Map:
		b := bv.(*Map)
		if (a == nil) != (b == nil) {
			return Bool{C: false}
		}
		if a == b {
			return Bool{C: true}
		}
		x.forceKeys(a)
		x.forceKeys(b)
		if len(a.Keys) != len(b.Keys) {
			return Bool{C: false}
		}
		et := t.Underlying().(*types.Map).Elem()
		r := Bool{C: true}
		for i, k := range a.Keys {
			found := false
			for j, k2 := range b.Keys {
				e := x.binop(token.EQL, k, k2).(Bool)
				if e.T != "" {
					panic(unsupported{"DeepEqual on maps with symbolic keys"})
				}
				if e.C {
					found = true
					r = x.and(r, x.deepEqVal(et, a.Vals[i], b.Vals[j]))
				}
			}
			if !found {
				return Bool{C: false}
			}
		}
		return r
	case Iface:
		return x.deepEq(a, bv.(Iface))
	case Ptr:
		b := bv.(Ptr)
		if a.Base == nil || b.Base == nil {
			return Bool{C: a.Base == nil && b.Base == nil}
		}
		if a.Base == b.Base && len(a.Path) == 0 && len(b.Path) == 0 {
			return Bool{C: true}
		}
		return x.deepEqVal(t.Underlying().(*types.Pointer).Elem(), x.load(a), x.load(b))
	case Struct:
		b := bv.(Struct)
		st := t.Underlying().(*types.Struct)
		r := Bool{C: true}
		for i := range a.F {
			r = x.and(r, x.deepEqVal(st.Field(i).Type(), a.F[i], b.F[i]))
		}
		return r
	case Array:
		b := bv.(Array)
		et := t.Underlying().(*types.Array).Elem()
		r := Bool{C: true}
		for i := range a.E {
			r = x.and(r, x.deepEqVal(et, a.E[i], b.E[i]))
		}
		return r
	case Fn:
		return Bool{C: a.F == nil && bv.(Fn).F == nil}
	}
	return x.binop(token.EQL, av, bv).(Bool)
}

// syncModel: sync.Map as an association list per map object (its operations
// are synchronised, so they are not frame writes); Mutex/RWMutex are no-ops
// in a single-threaded execution; Once runs its function once per path.
func (x *Exec) syncModel(name string, args []Val) (Val, bool) {
	key := func() string {
		p := args[0].(Ptr)
		if p.Base == nil {
			x.fail("nil-deref", "")
		}
		k := fmt.Sprintf("%p", p.Base)
		for _, st := range p.Path {
			if st.Idx != nil {
				k += fmt.Sprintf("[%d]", st.Idx.C)
			} else {
				k += fmt.Sprintf(".%d", st.Field)
			}
		}
		return k
	}
	switch name {
	case "(*sync.Mutex).Lock", "(*sync.RWMutex).Lock", "(*sync.RWMutex).RLock":
		x.lockDepth++
		return nil, true
	case "(*sync.Mutex).Unlock", "(*sync.RWMutex).Unlock", "(*sync.RWMutex).RUnlock":
		if x.lockDepth > 0 {
			x.lockDepth--
		}
		return nil, true
	case "(*sync.Once).Do":
		k := key()
		if x.onceDone == nil {
			x.onceDone = map[string]bool{}
		}
		if !x.onceDone[k] {
			x.onceDone[k] = true
			f := args[1].(Fn)
			x.call(f.F, nil, f.Env)
		}
		return nil, true
	case "(*sync.Pool).Get", "(*sync.Pool).Put":
		// a pool hands back what was put (most recent first) or calls New
		k := key()
		if x.pools == nil {
			x.pools = map[string][]Val{}
		}
		if name == "(*sync.Pool).Put" {
			x.pools[k] = append(x.pools[k], args[1])
			return nil, true
		}
		if n := len(x.pools[k]); n > 0 {
			v := x.pools[k][n-1]
			x.pools[k] = x.pools[k][:n-1]
			return v, true
		}
		pool := x.load(args[0].(Ptr)).(Struct)
		st := x.P.prog.ImportedPackage("sync").Type("Pool").Type().Underlying().(*types.Struct)
		for i := 0; i < st.NumFields(); i++ {
			if st.Field(i).Name() == "New" {
				if f, ok := pool.F[i].(Fn); ok && f.F != nil {
					return x.call(f.F, nil, f.Env), true
				}
			}
		}
		return Iface{}, true
	case "(*sync.Map).Load", "(*sync.Map).Store", "(*sync.Map).LoadOrStore", "(*sync.Map).Delete":
		k := key()
		if x.syncMaps == nil {
			x.syncMaps = map[string]*Map{}
		}
		m := x.syncMaps[k]
		if m == nil {
			m = &Map{Epoch: x.epoch}
			x.syncMaps[k] = m
		}
		find := func() int {
			for i := range m.Keys {
				e := x.binop(token.EQL, m.Keys[i], args[1]).(Bool)
				if x.truth(e) {
					return i
				}
			}
			return -1
		}
		switch name {
		case "(*sync.Map).Load":
			if i := find(); i >= 0 {
				return Tuple{m.Vals[i], Bool{C: true}}, true
			}
			return Tuple{Iface{}, Bool{C: false}}, true
		case "(*sync.Map).Store":
			if i := find(); i >= 0 {
				m.Vals = append(append([]Val{}, m.Vals[:i]...), append([]Val{args[2]}, m.Vals[i+1:]...)...)
			} else {
				m.Keys = append(append([]Val{}, m.Keys...), args[1])
				m.Vals = append(append([]Val{}, m.Vals...), args[2])
			}
			return nil, true
		case "(*sync.Map).LoadOrStore":
			if i := find(); i >= 0 {
				return Tuple{m.Vals[i], Bool{C: true}}, true
			}
			m.Keys = append(append([]Val{}, m.Keys...), args[1])
			m.Vals = append(append([]Val{}, m.Vals...), args[2])
			return Tuple{args[2], Bool{C: false}}, true
		default:
			if i := find(); i >= 0 {
				m.Keys = append(append([]Val{}, m.Keys[:i]...), m.Keys[i+1:]...)
				m.Vals = append(append([]Val{}, m.Vals[:i]...), m.Vals[i+1:]...)
			}
			return nil, true
		}
	}
	return nil, false
}

// sprintf: fmt.Sprintf for concrete formats built from %s %d %v %% applied to
// strings and concrete integers; anything else stays opaque.
func (x *Exec) sprintf(args []Val) (Val, bool) {
	format, ok := args[0].(Str).concrete()
	if !ok {
		return nil, false
	}
	var vals []Val
	if sl, ok := args[1].(Slice); ok {
		vals = x.sliceElems(sl)
	}
	out := Str{}
	k := 0
	for i := 0; i < len(format); i++ {
		c := format[i]
		if c != '%' {
			out = x.strConcat(out, strOf(string(c)))
			continue
		}
		i++
		if i >= len(format) {
			return nil, false
		}
		if format[i] == '%' {
			out = x.strConcat(out, strOf("%"))
			continue
		}
		if k >= len(vals) {
			return nil, false
		}
		iv, isI := vals[k].(Iface)
		k++
		if !isI || iv.L != nil {
			return nil, false
		}
		switch format[i] {
		case 's', 'v':
			if s, ok := iv.V.(Str); ok && iv.T != nil && types.Identical(iv.T.Underlying(), types.Typ[types.String]) {
				out = x.strConcat(out, s)
				continue
			}
			if n, ok := iv.V.(Int); ok && format[i] == 'v' && x.subst(n).conc() {
				out = x.strConcat(out, strOf(strconv.FormatInt(x.subst(n).sval(), 10)))
				continue
			}
			return nil, false
		case 'd':
			n, ok := iv.V.(Int)
			if !ok || !x.subst(n).conc() {
				return nil, false
			}
			n = x.subst(n)
			if n.S {
				out = x.strConcat(out, strOf(strconv.FormatInt(n.sval(), 10)))
			} else {
				out = x.strConcat(out, strOf(strconv.FormatUint(n.uval(), 10)))
			}
		default:
			return nil, false
		}
	}
	if k != len(vals) {
		return nil, false
	}
	return out, true
}
