package main

import (
	"fmt"
	"go/token"
	"go/types"

	"golang.org/x/tools/go/ssa"
)

func (x *Exec) newCell(v Val, name string) *Cell {
	return &Cell{V: v, Name: name, Epoch: x.epoch}
}

func (x *Exec) load(p Ptr) Val {
	if p.Base == nil {
		x.fail("nil-deref", "")
	}
	return x.loadPath(p.Base.V, p.Path)
}

func (x *Exec) loadPath(v Val, path []Step) Val {
	if len(path) == 0 {
		return v
	}
	st := path[0]
	if st.Idx == nil {
		return x.loadPath(v.(Struct).F[st.Field], path[1:])
	}
	a := v.(Array)
	idx := x.subst(*st.Idx)
	if idx.conc() {
		return x.loadPath(a.E[int(idx.sval())], path[1:])
	}
	// symbolic index (bounds already discharged)
	if len(a.E) >= 64 && len(path) == 1 {
		if tbl, ok := x.tableFor(a); ok {
			e0 := a.E[0].(Int)
			return x.nmI(Int{W: e0.W, S: e0.S, T: "(" + tbl + " " + idx.term() + ")"})
		}
	}
	var res Val
	for i := len(a.E) - 1; i >= 0; i-- {
		e := x.loadPath(a.E[i], path[1:])
		if res == nil {
			res = e
		} else {
			res = x.ite(Bool{T: "(= " + idx.term() + " " + bvc(idx.W, uint64(i)) + ")"}, e, res)
		}
	}
	return res
}

// tableFor: a large constant integer array indexed symbolically becomes an
// uninterpreted function whose points are asserted once at solver level 0.
func (x *Exec) tableFor(a Array) (string, bool) {
	for i := range a.E {
		e, ok := a.E[i].(Int)
		if !ok || !e.conc() {
			return "", false
		}
	}
	return x.P.tableName(x, a)
}

func (x *Exec) checkFrame(epoch int, what string) {
	x.checkFrameVis(epoch, what, "true")
}

// checkFrameVis: vis is a constraint under which the write is observable
// (the stored value differs from the old one); the model is taken under it
// when possible so that the native replay can see the change.
func (x *Exec) checkFrameVis(epoch int, what string, vis string) {
	if x.monitor && epoch < x.epoch && !(x.lockDepth > 0 && x.job.LockedWritesOK) {
		// obligation failure: a write to memory that existed before verifFreeze
		x.job.obligations.Add(1)
		if vis != "true" && x.sol.feasible(vis) == "sat" {
			x.reportWithModel("frame-write", what, vis)
			return
		}
		x.reportWithModel("frame-write", what, "true")
	}
}

// differ: a (sufficient, not necessary) constraint making two values differ.
func (x *Exec) differ(a, b Val) string {
	switch av := a.(type) {
	case Int:
		if bv, ok := b.(Int); ok && (av.T != "" || bv.T != "") && av.W == bv.W {
			return "(not (= " + av.term() + " " + bv.term() + "))"
		}
	case Bool:
		if bv, ok := b.(Bool); ok && (av.T != "" || bv.T != "") {
			return "(not (= " + av.term() + " " + bv.term() + "))"
		}
	case Flt:
		if bv, ok := b.(Flt); ok && (av.T != "" || bv.T != "") {
			return "(not (fp.eq " + av.term() + " " + bv.term() + "))"
		}
	case Iface:
		bv, ok := b.(Iface)
		if !ok {
			return "true"
		}
		la, lb := av.L != nil && !av.L.done, bv.L != nil && !bv.L.done
		switch {
		case la && lb && av.L != bv.L:
			return "(not (= " + x.kindVar(av.L) + " " + x.kindVar(bv.L) + "))"
		case la && !lb:
			bb := bv
			if bb.L != nil {
				bb = bb.L.val
			}
			return fmt.Sprintf("(not (= %s (_ bv%d 8)))", x.kindVar(av.L), kindOfIface(bb)&7)
		case lb && !la:
			aa := av
			if aa.L != nil {
				aa = aa.L.val
			}
			return fmt.Sprintf("(not (= %s (_ bv%d 8)))", x.kindVar(bv.L), kindOfIface(aa)&7)
		case !la && !lb:
			aa, bb := av, bv
			if aa.L != nil {
				aa = aa.L.val
			}
			if bb.L != nil {
				bb = bb.L.val
			}
			if aa.T != nil && bb.T != nil && types.Identical(aa.T, bb.T) {
				return x.differ(aa.V, bb.V)
			}
		}
	}
	return "true"
}

func (x *Exec) store(p Ptr, v Val) {
	if p.Base == nil {
		x.fail("nil-deref", "")
	}
	if x.monitor && p.Base.Epoch < x.epoch {
		vis := "true"
		func() {
			defer func() { recover() }()
			vis = x.differ(x.loadPath(p.Base.V, p.Path), v)
		}()
		x.checkFrameVis(p.Base.Epoch, "", vis)
	}
	p.Base.V = x.storePath(p.Base.V, p.Path, v)
}

func (x *Exec) storePath(cur Val, path []Step, v Val) Val {
	if len(path) == 0 {
		return v
	}
	st := path[0]
	if st.Idx == nil {
		s := cur.(Struct)
		n := Struct{F: append([]Val{}, s.F...)}
		n.F[st.Field] = x.storePath(s.F[st.Field], path[1:], v)
		return n
	}
	a := cur.(Array)
	n := Array{E: append([]Val{}, a.E...)}
	idx := x.subst(*st.Idx)
	if idx.conc() {
		i := int(idx.sval())
		n.E[i] = x.storePath(a.E[i], path[1:], v)
		return n
	}
	for i := range n.E {
		nv := x.storePath(a.E[i], path[1:], v)
		n.E[i] = x.ite(Bool{T: "(= " + idx.term() + " " + bvc(idx.W, uint64(i)) + ")"}, nv, a.E[i])
	}
	return n
}

// checkIndex discharges 0 <= idx < n and returns the index as a 64-bit signed Int.
func (x *Exec) checkIndex(idx Int, n int) Int {
	idx = x.subst(idx)
	if idx.conc() {
		v := idx.sval()
		if !idx.S {
			if idx.uval() > uint64(1)<<62 {
				x.fail("index-oob", "")
			}
			v = int64(idx.uval())
		}
		if v < 0 || v >= int64(n) {
			x.fail("index-oob", "")
		}
		return mkInt(v)
	}
	idx64 := ext(idx, 64, idx.S)
	idx64.S = true
	cond := "(or (bvslt " + idx64.T + " " + bvc(64, 0) + ") (bvsge " + idx64.T + " " + bvc(64, uint64(n)) + "))"
	if !idx.S {
		cond = "(bvuge " + idx64.T + " " + bvc(64, uint64(n)) + ")"
	}
	x.mustNot(cond, "index-oob", "")
	return idx64
}

// ---- maps ----
func (x *Exec) mapUpdate(m *Map, k, v Val) {
	if m == nil {
		x.fail("nil-map-write", "")
	}
	x.forceKeys(m)
	if x.monitor && m.Epoch < x.epoch {
		vis := "true"
		for i := range m.Keys {
			if e, ok := x.binop(token.EQL, m.Keys[i], k).(Bool); ok && e.T == "" && e.C {
				vis = x.differ(m.Vals[i], v)
			}
		}
		x.checkFrameVis(m.Epoch, "map", vis)
	}
	for i := range m.Keys {
		e := x.binop(token.EQL, m.Keys[i], k).(Bool)
		if e.T == "" {
			if e.C {
				m.Vals = append(append([]Val{}, m.Vals[:i]...), append([]Val{v}, m.Vals[i+1:]...)...)
				return
			}
			continue
		}
		// symbolic key equality: fork
		if x.truth(e) {
			m.Vals = append(append([]Val{}, m.Vals[:i]...), append([]Val{v}, m.Vals[i+1:]...)...)
			return
		}
	}
	m.Keys = append(append([]Val{}, m.Keys...), k)
	m.Vals = append(append([]Val{}, m.Vals...), v)
}

func (x *Exec) mapDelete(m *Map, k Val) {
	if m == nil {
		return
	}
	x.forceKeys(m)
	x.checkFrame(m.Epoch, "map")
	for i := range m.Keys {
		e := x.binop(token.EQL, m.Keys[i], k).(Bool)
		if x.truth(e) {
			m.Keys = append(append([]Val{}, m.Keys[:i]...), m.Keys[i+1:]...)
			m.Vals = append(append([]Val{}, m.Vals[:i]...), m.Vals[i+1:]...)
			return
		}
	}
}

func (x *Exec) lookup(fr *frame, in *ssa.Lookup) Val {
	c := x.get(fr, in.X)
	k := x.get(fr, in.Index)
	if s, ok := c.(Str); ok {
		return x.strIndex(s, k.(Int))
	}
	m := c.(*Map)
	vt := in.X.Type().Underlying().(*types.Map).Elem()
	var res Val = x.zero(vt)
	found := Bool{C: false}
	if m != nil {
		if ki, ok := k.(Int); ok {
			k = x.subst(ki)
		}
		if len(m.Pend) > 0 {
			if ks, ok := k.(Str); ok {
				if cs, ok := ks.concrete(); ok {
					x.decideKey(m, cs)
				} else {
					x.forceKeys(m)
				}
			}
		}
		for i := len(m.Keys) - 1; i >= 0; i-- {
			e := x.binop(token.EQL, m.Keys[i], k).(Bool)
			if e.T == "" {
				if e.C {
					res = m.Vals[i]
					found = Bool{C: true}
				}
				continue
			}
			res = x.ite(e, m.Vals[i], res)
			if in.CommaOk {
				found = x.or(e, found)
			}
		}
	}
	if in.CommaOk {
		return Tuple{res, found}
	}
	return res
}

func (x *Exec) strIndex(s Str, k Int) Val {
	x.needContent(s, "index")
	idx := x.checkIndex(k, len(s.B))
	if idx.conc() {
		return s.B[idx.C]
	}
	var r Val
	for i := len(s.B) - 1; i >= 0; i-- {
		if r == nil {
			r = s.B[i]
		} else {
			r = x.ite(Bool{T: "(= " + idx.T + " " + bvc(64, uint64(i)) + ")"}, s.B[i], r)
		}
	}
	return r
}
