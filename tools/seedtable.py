#!/usr/bin/env python3
# reads the matrix log (lines "<seed-id> Cxx=<exit> ...") and updates seeded/*/meta.json + prints a markdown table
import json,sys,os,re
log=sys.argv[1] if len(sys.argv)>1 else '/tmp/matrix.log'
rows={}
for l in open(log):
    f=l.split()
    if not f or '=' not in l: continue
    rows[f[0]]={kv.split('=')[0]:int(kv.split('=')[1]) for kv in f[1:] if '=' in kv}
print("| seeded change | property | what it needs | checks run → exit code | caught by |")
print("|---|---|---|---|---|")
for sid in sorted(rows):
    d=f'/verif/seeded/{sid}'
    if not os.path.isdir(d): continue
    meta=json.load(open(f'{d}/meta.json'))
    res=rows[sid]
    caught=[c for c,e in res.items() if e==1]
    meta['caught_by']=caught
    meta['checks_run']={c:{0:"exit 0 (missed)",1:"exit 1 (VIOLATION, replayed natively)",2:"exit 2 (inconclusive)"}.get(e,str(e)) for c,e in res.items()}
    json.dump(meta,open(f'{d}/meta.json','w'),indent=1)
    needs=meta['what_it_needs_to_manifest'].replace('\n',' ').replace('|','\\|')
    needs=re.sub(r'\s+',' ',needs)[:150]
    print(f"| {sid} | {meta['property']} | {needs}… | {' '.join(f'{c}→{e}' for c,e in res.items())} | {', '.join(caught) or '—'} |")
