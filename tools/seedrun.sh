#!/bin/bash
# usage: tools/seedrun.sh <seed-dir> <mN> <check> [<check>...]
# 1. confirms the seeded change in a scratch worktree (compiles, suite passes, demo fails with / passes without)
# 2. applies it to /repo, runs the given checks (quick), records exit codes, and undoes it.
set -u
export GOFLAGS=-mod=mod GOPROXY=off GOSUMDB=off GOTOOLCHAIN=local
D=$1; M=$2; shift 2
PATCH=$D/$M.diff; DEMO=$D/${M}_demo_test.go
WT=/tmp/wt/confirm_$$
git -C /repo worktree add -q --detach $WT HEAD || exit 3
demo_pkg_dir=$WT
grep -q '^package main' $DEMO 2>/dev/null && demo_pkg_dir=$WT/cmd/jpgo
res="seed=$D/$M"
cp $DEMO $demo_pkg_dir/zz_demo_test.go
( cd $demo_pkg_dir && go test -vet=off -count=1 -run . . >/tmp/seed_base_$$.log 2>&1 ); base=$?
if ! git -C $WT apply $PATCH 2>/tmp/seed_apply_$$.log; then echo "$res APPLY-FAILED $(cat /tmp/seed_apply_$$.log | head -2)"; git -C /repo worktree remove --force $WT; exit 3; fi
( cd $demo_pkg_dir && go test -vet=off -count=1 -run . . >/tmp/seed_mut_$$.log 2>&1 ); mut=$?
rm -f $demo_pkg_dir/zz_demo_test.go
( cd $WT && go build ./... && go test -vet=off -count=1 ./... >/tmp/seed_suite_$$.log 2>&1 ); suite=$?
git -C /repo worktree remove --force $WT
res="$res demo_without=$base demo_with=$mut suite_with=$suite"
if [ $base -ne 0 ] || [ $mut -eq 0 ] || [ $suite -ne 0 ]; then echo "$res NOT-CONFIRMED"; rm -f /tmp/seed_*_$$.log; exit 4; fi
git -C /repo apply $PATCH || { echo "$res APPLY-TO-REPO-FAILED"; exit 3; }
for c in "$@"; do
  out=$(cd /verif && ./check $c --tier quick 2>&1); code=$?
  what=$(echo "$out" | grep -m2 "what:" | sed 's/ in harness.*//' | tr '\n' ';' | cut -c1-200)
  res="$res | $c=$code $what"
done
git -C /repo checkout -- .
rm -f /tmp/seed_*_$$.log
echo "$res"
