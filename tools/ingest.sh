#!/bin/bash
# usage: tools/ingest.sh <Cxx> <mN> [extra checks...]
# takes a sub-agent's result (/tmp/sa/<Cxx>.patch + /tmp/sa/<Cxx>/demo_test.go), confirms it in a fresh scratch
# worktree (demo passes without the patch, fails with it, build + existing suite pass with it), stores it under
# seeded/<Cxx>-<mN>/ and runs the property's quick check (and any extra checks) against a patched scratch copy.
set -u
export GOFLAGS=-mod=mod GOPROXY=off GOSUMDB=off GOTOOLCHAIN=local
P=$1; M=$2; shift 2
SRC=/tmp/sa/$P; ID=$P-$M
git -C $SRC diff -- . ':!demo_test.go' > /tmp/sa/$ID.diff
[ -s /tmp/sa/$ID.diff ] || { echo "$ID empty-diff"; exit 3; }
WT=/tmp/wt/confirm_$ID; mkdir -p /tmp/wt
git -C /repo worktree add -q --detach $WT HEAD || exit 3
cp $SRC/demo_test.go $WT/zz_demo_test.go
( cd $WT && go test -vet=off -count=1 -run TestDemo . >/tmp/sa/$ID.base.log 2>&1 ); base=$?
git -C $WT apply /tmp/sa/$ID.diff || { echo "$ID apply-failed"; git -C /repo worktree remove --force $WT; exit 3; }
( cd $WT && go test -vet=off -count=1 -run TestDemo . >/tmp/sa/$ID.mut.log 2>&1 ); mut=$?
rm -f $WT/zz_demo_test.go
( cd $WT && go build ./... && go test -vet=off -count=1 ./... >/tmp/sa/$ID.suite.log 2>&1 ); suite=$?
git -C /repo worktree remove --force $WT
echo "$ID demo_without=$base demo_with=$mut suite_with=$suite"
if [ $base -ne 0 ] || [ $mut -eq 0 ] || [ $suite -ne 0 ]; then echo "$ID NOT-CONFIRMED"; exit 4; fi
mkdir -p /verif/seeded/$ID
cp /tmp/sa/$ID.diff /verif/seeded/$ID/patch.diff
cp $SRC/demo_test.go /verif/seeded/$ID/demo_test.go
/verif/tools/matrix.sh $ID /verif/seeded/$ID/patch.diff $P "$@"
