#!/bin/bash
# usage: tools/matrix.sh <seed-id> <patch> <check>...   (runs checks against a scratch copy of /repo with the patch applied)
# prints one line: <seed-id> C01=1 C05=0 ...
export GOFLAGS=-mod=mod GOPROXY=off GOSUMDB=off GOTOOLCHAIN=local
ID=$1; PATCH=$2; shift 2
WT=/tmp/mut/$ID
mkdir -p /tmp/mut /tmp/mutout/$ID
git -C /repo worktree add -q --detach $WT HEAD 2>/dev/null || { echo "$ID worktree-failed"; exit 3; }
git -C $WT apply $PATCH || { echo "$ID apply-failed"; git -C /repo worktree remove --force $WT; exit 3; }
line="$ID"
for c in "$@"; do
  VERIF_REPO=$WT VERIF_OUT=/tmp/mutout/$ID /verif/bin/symgo check $c --tier quick > /tmp/mutout/$ID/$c.log 2>&1; code=$?
  line="$line $c=$code"
done
git -C /repo worktree remove --force $WT
echo "$line"
