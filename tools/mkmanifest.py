#!/usr/bin/env python3
# Regenerates /verif/MANIFEST.json from the table below (run after adding a check).
import json, sys
TECH = "bounded symbolic execution of the real code (own go/ssa -> SMT-LIB2 executor 'symgo'; z3 4.8.12 / cvc5 decide every branch and obligation; counterexamples replayed natively)"
claimed = {
 "C01": ("model_checking", "5-6/C01", "Search on core-fragment templates equals the specification evaluator for every document (quick: depth<=2, arrays<=2; thorough: depth<=4, arrays<=4) and every 64-bit index; expression shapes are enumerated templates"),
 "C02": ("model_checking", "6/C02", "Search on projection templates equals the specification evaluator (null dropping, order, flatten depth, filter truthiness, projection scope; object wildcards as multisets over every member order)"),
 "C03": ("model_checking", "6/C03", "AST of every accepted symbolic token sequence (n<=3/4, sub-alphabets to 5-9) equals a reference parser written from the precedence table; operator mixes evaluate like their specified grouping"),
 "C04": ("model_checking", "6/C04", "Parser.Parse on symbolic token sequences accepts iff the CYK circuit of the grammar accepts, accepted ASTs are well formed; Compile on symbolic bytes"),
 "C05": ("model_checking", "6/C05", "no panic site and no loop-budget overrun is reachable in tokenize/Compile (symbolic bytes), Parse (symbolic tokens), slice kernel (free ints) and Search over all template families (symbolic documents)"),
 "C07": ("model_checking", "6/C07", "truthiness, ||, &&, !, comparators vs. the specification for all finite doubles, short strings and shapes in bounds"),
 "C08": ("model_checking", "6/C08", "slice()/computeSliceParams()/capSlice() vs Python slicing for every start/stop/step in the full 64-bit range and every presence combination, lengths 0..6/12"),
 "C09": ("model_checking", "6/C09", "every built-in on every tuple over lazy arguments vs. the function specification (value and error-ness)"),
 "C10": ("model_checking", "6/C10", "ill-typed / wrong-arity / unknown calls are errors, never values, never panics, over the full argument-kind matrix"),
 "C11": ("model_checking", "6/C11", "an erroring sub-expression in every strict and non-strict position: Search errs iff the specification reaches the error"),
 "C17": ("model_checking", "6/C17", "Compile/MustCompile result contract, SyntaxError fields and caret rendering on symbolic bytes; parser offsets are token positions on symbolic token sequences"),
}
claimed.update(json.load(open('/verif/tools/claimed_extra.json')) if __import__('os').path.exists('/verif/tools/claimed_extra.json') else {})
notes = {}
ids = [json.loads(l)['id'] for l in open('/verif/properties.jsonl')]
na_reason = json.load(open('/verif/tools/not_applicable.json')) if __import__('os').path.exists('/verif/tools/not_applicable.json') else {}
checks = []
for i in ids:
    if i not in claimed: continue
    cat, ref, text = claimed[i]
    checks.append({
        "property_id": i,
        "quick_cmd": f"./check {i} --tier quick",
        "thorough_cmd": f"./check {i} --tier thorough",
        "evidence_file": f"/verif/evidence/{i}.json",
        "replay_cmd_template": "./check --replay {path}",
        "engine": "symgo",
        "level_claimed": {"category": cat, "text": text + ". Within the stated bounds the solver decides every path (unsat = holds for all values); outside them nothing is claimed.", "design_ref": "DESIGN.md section " + ref},
        "level_note": "trusted: go/ssa v0.29.0 as the semantics of the source, the executor's encoding (validated every setup by pushing the repository's 858 compliance cases through it and natively, and by replaying sampled path witnesses natively in every run), z3 4.8.12 / cvc5 1.0.3 soundness, the Go models/contract stubs of stdlib functions listed in DESIGN.md section 7",
        "technique": TECH,
    })
na = [{"property_id": i, "reason": na_reason.get(i, "check not built yet in this session (solver-based harness planned, see DESIGN.md section 6); not claimed")} for i in ids if i not in claimed]
m = {"version": 1, "setup_cmd": "./setup.sh",
     "hooks": {"guard": "verif", "enable": "harness files under /verif/harness are injected as go/packages overlays with -tags verif (symbolic build) or go test -overlay with -tags verifnative (native replay); /repo carries no hook code", "baseline_off_cmd": "for m in . internal/testify; do (cd /repo/$m && GOFLAGS=-mod=mod go test -vet=off -count=1 ./...); done", "source_commits": [], "add_only": True},
     "engines": [{"name": "symgo", "path": "/verif/engine", "serves_properties": [c["property_id"] for c in checks], "kind_free_text": "forking symbolic executor over go/ssa with SMT-LIB2 back end (z3 -in per worker, cvc5 for floating point), native counterexample replay"}],
     "checks": checks, "not_applicable": na,
     "notes": "exit 0 = every obligation unsat within the registered bounds; exit 1 = replay-confirmed violation not listed in known_findings.jsonl; exit 2 = inconclusive (harness no longer type-checks, unsupported construct, solver unknown, budget exceeded, engine/native mismatch). See DESIGN.md."}
json.dump(m, open('/verif/MANIFEST.json', 'w'), indent=1)
print("claimed", len(checks), "not_applicable", len(na))
