#!/bin/bash
# runs every seeded change against its own check and up to two related ones; output on stdout
declare -A EXTRA
EXTRA[C01]="C15 C02"; EXTRA[C02]="C11 C01"; EXTRA[C03]="C04"; EXTRA[C04]="C03 C17"; EXTRA[C05]="C17 C08"
EXTRA[C06]="C12 C13"; EXTRA[C07]="C11"; EXTRA[C08]="C18"; EXTRA[C09]="C10 C16"; EXTRA[C10]="C09 C11"
EXTRA[C11]="C10 C07"; EXTRA[C12]="C06 C13"; EXTRA[C13]="C12 C06"; EXTRA[C14]="C04 C17"; EXTRA[C15]="C06 C01"
EXTRA[C16]="C09"; EXTRA[C17]="C04 C14"; EXTRA[C18]=""; EXTRA[C19]=""
for d in /verif/seeded/*/; do
  id=$(basename $d); p=${id%%-*}
  /verif/tools/matrix.sh $id $d/patch.diff $p ${EXTRA[$p]}
done
