#!/bin/bash
# every seeded change against its own property's check, plus the check expected to catch it when that is another one
declare -A ALT
ALT[C01-m4]="C14"; ALT[C01-m5]="C14"; ALT[C08-m5]="C02"; ALT[C11-m5]="C10"; ALT[C15-m5]="C01"; ALT[C11-m3]="C10"; ALT[C15-m2]="C06 C13"; ALT[C15-m4]="C13"; ALT[C01-m2]="C14"; ALT[C06-m1]="C12"; ALT[C13-m2]="C06"; ALT[C02-m4]="C08"
for d in /verif/seeded/*/; do
  id=$(basename $d); p=${id%%-*}
  /verif/tools/matrix.sh $id $d/patch.diff $p ${ALT[$id]}
done
