#!/bin/bash
# runs every seeded change against a selection of checks (own property + related ones); output /tmp/matrix.log
declare -A EXTRA
EXTRA[C01]="C02 C15 C16 C05"; EXTRA[C02]="C01 C11 C16 C05"; EXTRA[C03]="C04 C17 C02"; EXTRA[C04]="C03 C17 C05 C14"; EXTRA[C05]="C17 C08 C04"
EXTRA[C06]="C12 C13 C15"; EXTRA[C07]="C11 C02 C16"; EXTRA[C08]="C05 C02 C18"; EXTRA[C09]="C10 C16 C11"; EXTRA[C10]="C09 C11 C05"
EXTRA[C11]="C07 C10 C02"; EXTRA[C12]="C06 C13"; EXTRA[C13]="C06 C12 C14"; EXTRA[C14]="C04 C17 C01"; EXTRA[C15]="C01 C06 C13"
EXTRA[C16]="C09 C10 C02"; EXTRA[C17]="C04 C05 C14"; EXTRA[C18]="C05"; EXTRA[C19]=""
for d in /verif/seeded/*/; do
  id=$(basename $d); p=${id%%-*}
  /verif/tools/matrix.sh $id $d/patch.diff $p ${EXTRA[$p]}
done
