#!/bin/bash
# behaviour-preserving changes: no check may exit 1 on them (2 = inconclusive is reported, not an alarm)
declare -A SEL
SEL[R1]="C04 C14 C17"; SEL[R2]="C03 C04 C17"; SEL[R3]="C01 C02 C07 C11 C18"; SEL[R4]="C09 C10 C16 C06"; SEL[R5]="C08 C07 C13 C10"; SEL[R6]="C19"
for d in /verif/seeded-benign/${1:-}*/; do
  id=$(basename $d); g=${id%%-*}
  /verif/tools/matrix.sh $id $d/patch.diff ${SEL[$g]}
done
