#!/bin/bash
# behaviour-preserving changes: no check may exit 1 on them
declare -A SEL
SEL[R1]="C04 C14 C17 C13 C05"; SEL[R2]="C03 C04 C17 C13 C05"; SEL[R3]="C01 C02 C07 C11 C18 C06 C15"; SEL[R4]="C09 C10 C16 C06 C13 C18"; SEL[R5]="C08 C07 C13 C12 C01 C10"; SEL[R6]="C19"
for d in /verif/seeded-benign/*/; do
  id=$(basename $d); g=${id%%-*}
  /verif/tools/matrix.sh $id $d/patch.diff ${SEL[$g]}
done
